//! Emits the shape corpus (definitions + glue + registry) into OUT_DIR.
#[path = "src/desc.rs"]
mod desc;
#[path = "src/gen.rs"]
mod gen;

use std::{env, fs, path::Path};

fn main() {
    println!("cargo:rerun-if-changed=src/desc.rs");
    println!("cargo:rerun-if-changed=src/gen.rs");
    println!("cargo:rerun-if-changed=build.rs");
    println!("cargo:rerun-if-env-changed=VERIF_CORPUS_N");
    println!("cargo:rerun-if-env-changed=VERIF_EXTRA_SEED");
    println!("cargo:rerun-if-env-changed=VERIF_EXTRA_N");
    let n: usize = env::var("VERIF_CORPUS_N").ok().and_then(|s| s.parse().ok()).unwrap_or(90);
    let extra_seed: u64 = env::var("VERIF_EXTRA_SEED").ok().and_then(|s| s.parse().ok()).unwrap_or(0);
    let extra_n: usize = env::var("VERIF_EXTRA_N").ok().and_then(|s| s.parse().ok()).unwrap_or(0);

    let base = gen::corpus(0, n, true, "G");
    let extra = gen::corpus(extra_seed.wrapping_add(1), extra_n, false, "X");
    let mut src = String::new();
    src.push_str(&gen::emit(&base.shapes, "registry_base"));
    src.push_str(&gen::emit(&extra.shapes, "registry_extra"));
    src.push_str(&format!(
        "pub const CORPUS_N: usize = {};\npub const EXTRA_SEED: u64 = {};\npub const EXTRA_N: usize = {};\n",
        n, extra_seed, extra_n
    ));
    let out = Path::new(&env::var("OUT_DIR").unwrap()).join("shapes.rs");
    fs::write(out, src).unwrap();
}
