//! Emits the shape corpus (definitions + glue + registry) into OUT_DIR.
#[path = "src/desc.rs"]
mod desc;
#[path = "src/gen.rs"]
mod gen;

use std::{env, fs, path::Path};

fn main() {
    println!("cargo:rerun-if-changed=src/desc.rs");
    println!("cargo:rerun-if-changed=src/gen.rs");
    println!("cargo:rerun-if-changed=build.rs");
    println!("cargo:rerun-if-env-changed=VERIF_CORPUS_N");
    println!("cargo:rerun-if-env-changed=VERIF_EXTRA_SEED");
    println!("cargo:rerun-if-env-changed=VERIF_EXTRA_N");
    println!("cargo:rerun-if-env-changed=VERIF_EXCLUDE");
    let n: usize = env::var("VERIF_CORPUS_N").ok().and_then(|s| s.parse().ok()).unwrap_or(90);
    let extra_seed: u64 = env::var("VERIF_EXTRA_SEED").ok().and_then(|s| s.parse().ok()).unwrap_or(0);
    let extra_n: usize = env::var("VERIF_EXTRA_N").ok().and_then(|s| s.parse().ok()).unwrap_or(0);

    // Definitions that no longer compile against /repo's working tree (named by the driver after a
    // failed build, see ./check): every shape that mentions one of them is left out, so that the rest of
    // the corpus can still be run. The run then reports the reduced corpus and never exits 0.
    let exclude: Vec<String> = env::var("VERIF_EXCLUDE").ok().map(|s| s.split(';').filter(|x| !x.is_empty()).map(|x| x.to_string()).collect()).unwrap_or_default();
    let mut base = gen::corpus(0, n, true, "G");
    let mut extra = gen::corpus(extra_seed.wrapping_add(1), extra_n, false, "X");
    if !exclude.is_empty() {
        let keep = |t: &desc::Ty| !gen::named_defs(std::slice::from_ref(t)).iter().any(|d| exclude.iter().any(|x| *x == d.rust() || (!x.contains('<') && d.rust().starts_with(&format!("{}<", x)))));
        base.shapes.retain(keep);
        extra.shapes.retain(keep);
    }
    let mut src = String::new();
    src.push_str(&gen::emit(&base.shapes, "registry_base"));
    src.push_str(&gen::emit(&extra.shapes, "registry_extra"));
    src.push_str(&format!(
        "pub const CORPUS_N: usize = {};\npub const EXTRA_SEED: u64 = {};\npub const EXTRA_N: usize = {};\n",
        n, extra_seed, extra_n
    ));
    src.push_str(&format!("pub const EXCLUDED: &[&str] = &[{}];\n", exclude.iter().map(|x| format!("{:?}", x)).collect::<Vec<_>>().join(", ")));
    let out = Path::new(&env::var("OUT_DIR").unwrap()).join("shapes.rs");
    fs::write(out, src).unwrap();
}
