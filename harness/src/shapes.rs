//! The generated shape corpus (see build.rs / gen.rs).
#![allow(non_camel_case_types, dead_code, unused_variables, unused_mut, clippy::all)]

use crate::glue::for_shapes::*;
use std::collections::HashMap;
use std::sync::OnceLock;

/// Look up a generated definition by name (the generator is re-run at start-up
/// with the same parameters build.rs used, so descriptions and code agree).
pub fn named(name: &str) -> Ty {
    static MAP: OnceLock<HashMap<String, Ty>> = OnceLock::new();
    MAP.get_or_init(|| {
        let mut m = HashMap::new();
        let base = crate::gen::corpus(0, CORPUS_N, true, "G");
        let extra = crate::gen::corpus(EXTRA_SEED.wrapping_add(1), EXTRA_N, false, "X");
        for d in crate::gen::named_defs(&base.shapes).into_iter().chain(crate::gen::named_defs(&extra.shapes)) {
            m.insert(d.rust(), d);
        }
        m
    })
    .get(name)
    .unwrap_or_else(|| panic!("harness: unknown generated type {}", name))
    .clone()
}

include!(concat!(env!("OUT_DIR"), "/shapes.rs"));

pub fn registry() -> Vec<Box<dyn DynShape>> {
    let mut v = registry_base();
    v.extend(registry_extra());
    v
}
