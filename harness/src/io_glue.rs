//! Typed drivers for flatty-io's blocking and async Sender / Receiver.

use crate::desc::Value;
use crate::glue::{FErr, ReadOut, Route, Shape, ValEmplacer};
use crate::pipes::*;
use flatty::traits::FlatBase;
use flatty_io::{AsyncReceiver, AsyncSender, IoBuffer, Receiver, RecvError, Sender};
use std::io::ErrorKind;
use std::panic::{catch_unwind, AssertUnwindSafe};

#[derive(Clone, Debug, PartialEq)]
pub enum SendRes {
    Sent,
    /// alloc() failed
    AllocErr(ErrorKind),
    /// new_in_place failed
    Emplace(FErr),
    /// send() failed
    IoErr(ErrorKind),
    /// the call panicked (message)
    Panic(String),
}

#[derive(Clone, Debug, Default)]
pub struct SendReport {
    pub results: Vec<SendRes>,
    /// bytes in the sink after each attempt
    pub lens: Vec<usize>,
    /// length of the sink's event log after each attempt
    pub log_lens: Vec<usize>,
    /// polls per completed send (async)
    pub polls: Vec<usize>,
    /// a send future returned Pending without a wake-up / exceeded the poll budget
    pub stalled: bool,
}

#[derive(Clone, Debug, Default)]
pub struct RecvReport {
    pub events: Vec<RecvRes>,
    /// bytes the source had delivered when each event was produced
    pub delivered: Vec<usize>,
    pub polls: usize,
    pub stalled: bool,
}

#[derive(Clone, Debug)]
pub enum RecvRes {
    Msg {
        value: Value,
        size: usize,
        anomalies: Vec<String>,
        /// bytes the source had delivered when recv returned
        delivered: usize,
        /// `as_bytes().len()` of the view
        view_len: usize,
    },
    Parse(FErr),
    Read(ErrorKind),
    Closed,
    Panic(String),
    /// dropping the guard panicked
    DropPanic(String),
    /// internal: the guard was retained, the message is received again (never reported)
    Retained,
}

thread_local! {
    /// Operations applied to message #i through the SendGuard (DerefMut) after it was emplaced and
    /// before it is sent. Set by the property, read by the send drivers.
    pub static POST_OPS: std::cell::RefCell<Vec<Vec<(Vec<u16>, crate::glue::Op)>>> = std::cell::RefCell::new(Vec::new());
}

thread_local! {
    /// When set, senders / receivers are built with `Sender::new(IoBuffer::new(pipe, capacity, ALIGN))`
    /// (an explicit buffer capacity) instead of `::io(pipe, max_msg_len)` (which allocates 2 * max_msg_len).
    pub static IO_CAPACITY: std::cell::Cell<Option<usize>> = std::cell::Cell::new(None);
}

thread_local! {
    /// Message #i is not emplaced but written as raw bytes through `UninitSendGuard::as_mut_bytes()` and
    /// declared initialised with `assume_init()` (a reference-encoded, possibly non-canonical image).
    pub static RAW_IMAGES: std::cell::RefCell<Vec<Option<Vec<u8>>>> = std::cell::RefCell::new(Vec::new());
}

thread_local! {
    /// Message #i (which equals the documented default) is initialised with `UninitSendGuard::default_in_place()`.
    pub static USE_DEFAULT: std::cell::RefCell<Vec<bool>> = std::cell::RefCell::new(Vec::new());
}

fn use_default(i: usize) -> bool {
    USE_DEFAULT.with(|p| p.borrow().get(i).copied().unwrap_or(false))
}

thread_local! {
    /// Bit i: the receiver first calls `retain()` on the guard of message #i ("destroy the guard but do not
    /// remove the message") and receives again; the next recv() must yield the same message.
    pub static RETAIN_MASK: std::cell::Cell<u64> = std::cell::Cell::new(0);
}

fn retain_bit(i: usize) -> bool {
    i < 64 && RETAIN_MASK.with(|m| m.get()) >> i & 1 == 1
}

fn raw_image(i: usize) -> Option<Vec<u8>> {
    RAW_IMAGES.with(|p| p.borrow().get(i).cloned().flatten())
}

/// Initialise a send guard: by the value's emplacer, or from a raw image (as_mut_bytes + assume_init).
macro_rules! init_guard {
    ($T:ty, $dflt:ident, $guard:expr, $i:expr, $m:expr, $route:expr) => {{
        let mut g = $guard;
        match raw_image($i) {
            Some(img) if img.len() <= g.as_mut_bytes().len() => {
                g.as_mut_bytes()[..img.len()].copy_from_slice(&img);
                if g.as_bytes()[..img.len()] != img[..] {
                    panic!("UninitSendGuard::as_bytes() does not show what was written through as_mut_bytes()");
                }
                Ok(unsafe { g.assume_init() })
            }
            _ if use_default($i) => match <$T>::$dflt(g) {
                Ok(r) => r,
                Err(g) => g.new_in_place(ValEmplacer::<$T>::new($m, $route)),
            },
            _ => g.new_in_place(ValEmplacer::<$T>::new($m, $route)),
        }
    }};
}

fn capacity_override() -> Option<usize> {
    IO_CAPACITY.with(|c| c.get())
}

thread_local! {
    /// log2 of the factor by which explicitly built IoBuffers are aligned more strictly than the message
    /// type needs (`IoBuffer::new(pipe, capacity, M::ALIGN << shift)`; the public constructor takes any alignment)
    pub static IO_ALIGN_SHIFT: std::cell::Cell<u32> = std::cell::Cell::new(0);
}

fn buf_align<T: Shape + ?Sized>() -> usize {
    T::ALIGN << IO_ALIGN_SHIFT.with(|c| c.get()).min(4)
}

fn apply_post_ops<T: Shape + ?Sized>(i: usize, x: &mut T) {
    POST_OPS.with(|p| {
        if let Some(ops) = p.borrow().get(i) {
            for (path, op) in ops {
                let _ = x.mutate(path, op);
            }
        }
    });
}

fn panic_msg(e: Box<dyn std::any::Any + Send>) -> String {
    if let Some(s) = e.downcast_ref::<&str>() {
        s.to_string()
    } else if let Some(s) = e.downcast_ref::<String>() {
        s.clone()
    } else {
        "<panic>".into()
    }
}

fn shallow_read<T: Shape + ?Sized>(x: &T, base: usize) -> ReadOut {
    let mut rec = crate::glue::Recorder::new(base);
    let value = x.read(&mut rec);
    let ab = flatty::traits::FlatUnsized::as_bytes(x);
    ReadOut {
        value,
        nodes: rec.nodes,
        anomalies: rec.anomalies,
        size: x.size(),
        bytes_off: 0,
        bytes_len: ab.len(),
        size_of_val: std::mem::size_of_val(x),
        align_of_val: std::mem::align_of_val(x),
    }
}

/// Send `msgs` one after another through a blocking sender over `sink`.
/// Stops after `stop_after_errors` failed sends (later attempts are still made up to that count).
pub fn send_blocking<T: Shape + ?Sized>(msgs: &[Value], routes: &[u8], max_msg_len: usize, sink: &mut ScriptSink, keep_going: bool) -> SendReport {
    let mut out = Vec::new();
    let mut lens = Vec::new();
    let mut log_lens = Vec::new();
    let sink_ptr: *const ScriptSink = sink;
    let mut sender = match capacity_override() {
        Some(cap) => Sender::<T, _>::new(IoBuffer::new(&mut *sink, cap, buf_align::<T>())),
        None => Sender::<T, _>::io(&mut *sink, max_msg_len),
    };
    for (i, m) in msgs.iter().enumerate() {
        let route = Route::new(&[routes.get(i).copied().unwrap_or(0)]);
        let r = catch_unwind(AssertUnwindSafe(|| -> SendRes {
            let guard = match sender.alloc() {
                Ok(g) => g,
                Err(e) => return SendRes::AllocErr(e.kind()),
            };
            let mut guard = match init_guard!(T, guard_default, guard, i, m, &route) {
                Ok(g) => g,
                Err(e) => return SendRes::Emplace(e.into()),
            };
            apply_post_ops::<T>(i, &mut *guard);
            match guard.send() {
                Ok(()) => SendRes::Sent,
                Err(e) => SendRes::IoErr(e.kind()),
            }
        }));
        let r = match r {
            Ok(r) => r,
            Err(e) => SendRes::Panic(panic_msg(e)),
        };
        let failed = r != SendRes::Sent;
        out.push(r);
        lens.push(unsafe { (*sink_ptr).data.len() });
        log_lens.push(unsafe { (*sink_ptr).log.len() });
        if failed && !keep_going {
            break;
        }
    }
    SendReport {
        results: out,
        lens,
        log_lens,
        polls: vec![],
        stalled: false,
    }
}

/// Receive until Closed / fatal error. Transient read errors are retried up to `retries` times.
pub fn recv_blocking<T: Shape + ?Sized>(source: &mut ScriptSource, max_msg_len: usize, max_events: usize, retries: usize) -> RecvReport {
    let mut out = Vec::new();
    let mut dl = Vec::new();
    let src_ptr: *const ScriptSource = source;
    let mut receiver = match capacity_override() {
        Some(cap) => Receiver::<T, _>::new(IoBuffer::new(&mut *source, cap, buf_align::<T>())),
        None => Receiver::<T, _>::io(&mut *source, max_msg_len),
    };
    let mut retries_left = retries;
    let mut retained: Option<Value> = None;
    let mut msg_idx = 0usize;
    while out.len() < max_events {
        let r = catch_unwind(AssertUnwindSafe(|| -> (RecvRes, bool) {
            match receiver.recv() {
                Ok(guard) => {
                    let delivered = unsafe { (*src_ptr).at };
                    let mut ro = shallow_read::<T>(&*guard, &*guard as *const T as *const u8 as usize);
                    if retained.is_none() && retain_bit(msg_idx) {
                        retained = Some(ro.value);
                        guard.retain();
                        return (RecvRes::Retained, true);
                    }
                    if let Some(prev) = retained.take() {
                        if prev != ro.value {
                            ro.anomalies.push(format!("after retain() the next recv() yields {} instead of the retained {}", ro.value.show(), prev.show()));
                        }
                    }
                    msg_idx += 1;
                    let res = RecvRes::Msg {
                        value: ro.value,
                        size: ro.size,
                        anomalies: ro.anomalies,
                        delivered,
                        view_len: ro.bytes_len,
                    };
                    match catch_unwind(AssertUnwindSafe(move || drop(guard))) {
                        Ok(()) => (res, true),
                        Err(e) => (RecvRes::DropPanic(panic_msg(e)), false),
                    }
                }
                Err(RecvError::Closed) => (RecvRes::Closed, false),
                Err(RecvError::Parse(e)) => (RecvRes::Parse(e.into()), false),
                Err(RecvError::Read(e)) => (RecvRes::Read(e.kind()), false),
            }
        }));
        dl.push(unsafe { (*src_ptr).at });
        match r {
            Ok((RecvRes::Retained, _)) => {
                dl.pop();
                continue;
            }
            Ok((res, cont)) => {
                let is_read = matches!(res, RecvRes::Read(_));
                out.push(res);
                if cont {
                    continue;
                }
                if is_read && retries_left > 0 {
                    retries_left -= 1;
                    continue;
                }
                break;
            }
            Err(e) => {
                out.push(RecvRes::Panic(panic_msg(e)));
                break;
            }
        }
    }
    RecvReport {
        events: out,
        delivered: dl,
        polls: 0,
        stalled: false,
    }
}

pub struct AsyncSplitReport {
    pub sends: Vec<SendRes>,
    pub send_polls: Vec<usize>,
    pub recvs: Vec<RecvRes>,
    pub recv_polls: usize,
    pub stalled: bool,
}

/// Split set-up: all sends against a scripted sink, then the receiver against a scripted source.
pub fn async_send<T: Shape + ?Sized>(msgs: &[Value], routes: &[u8], max_msg_len: usize, sink: &mut ScriptSink, max_polls: usize, keep_going: bool) -> SendReport {
    let mut out = Vec::new();
    let mut polls = Vec::new();
    let mut lens = Vec::new();
    let mut log_lens = Vec::new();
    let mut stalled = false;
    let sink_ptr: *const ScriptSink = sink;
    let mut sender = match capacity_override() {
        Some(cap) => AsyncSender::<T, _>::new(IoBuffer::new(&mut *sink, cap, buf_align::<T>())),
        None => AsyncSender::<T, _>::io(&mut *sink, max_msg_len),
    };
    for (i, m) in msgs.iter().enumerate() {
        let route = Route::new(&[routes.get(i).copied().unwrap_or(0)]);
        let r = catch_unwind(AssertUnwindSafe(|| {
            run_single(
                async {
                    let guard = match sender.alloc().await {
                        Ok(g) => g,
                        Err(e) => return SendRes::AllocErr(e.kind()),
                    };
                    let mut guard = match init_guard!(T, async_guard_default, guard, i, m, &route) {
                        Ok(g) => g,
                        Err(e) => return SendRes::Emplace(e.into()),
                    };
                    apply_post_ops::<T>(i, &mut *guard);
                    match guard.send().await {
                        Ok(()) => SendRes::Sent,
                        Err(e) => SendRes::IoErr(e.kind()),
                    }
                },
                max_polls,
            )
        }));
        match r {
            Ok(Some((res, p))) => {
                let failed = res != SendRes::Sent;
                out.push(res);
                polls.push(p);
                lens.push(unsafe { (*sink_ptr).data.len() });
        log_lens.push(unsafe { (*sink_ptr).log.len() });
                if failed && !keep_going {
                    break;
                }
            }
            Ok(None) => {
                stalled = true;
                break;
            }
            Err(e) => {
                out.push(SendRes::Panic(panic_msg(e)));
                lens.push(unsafe { (*sink_ptr).data.len() });
        log_lens.push(unsafe { (*sink_ptr).log.len() });
                if !keep_going {
                    break;
                }
            }
        }
    }
    SendReport {
        results: out,
        lens,
        log_lens,
        polls,
        stalled,
    }
}

pub fn async_recv<T: Shape + ?Sized>(source: &mut ScriptSource, max_msg_len: usize, max_events: usize, retries: usize, max_polls: usize) -> RecvReport {
    let mut out = Vec::new();
    let mut dl = Vec::new();
    let src_ptr: *const ScriptSource = source;
    let mut receiver = match capacity_override() {
        Some(cap) => AsyncReceiver::<T, _>::new(IoBuffer::new(&mut *source, cap, buf_align::<T>())),
        None => AsyncReceiver::<T, _>::io(&mut *source, max_msg_len),
    };
    let mut retries_left = retries;
    let mut polls = 0;
    let mut retained: Option<Value> = None;
    let mut msg_idx = 0usize;
    while out.len() < max_events {
        let r = catch_unwind(AssertUnwindSafe(|| {
            run_single(
                async {
                    match receiver.recv().await {
                        Ok(guard) => {
                            let delivered = unsafe { (*src_ptr).at };
                            let mut ro = shallow_read::<T>(&*guard, &*guard as *const T as *const u8 as usize);
                            if retained.is_none() && retain_bit(msg_idx) {
                                retained = Some(ro.value);
                                guard.retain();
                                return (RecvRes::Retained, true);
                            }
                            if let Some(prev) = retained.take() {
                                if prev != ro.value {
                                    ro.anomalies.push(format!("after retain() the next recv() yields {} instead of the retained {}", ro.value.show(), prev.show()));
                                }
                            }
                            msg_idx += 1;
                            let res = RecvRes::Msg {
                                value: ro.value,
                                size: ro.size,
                                anomalies: ro.anomalies,
                                delivered,
                                view_len: ro.bytes_len,
                            };
                            match catch_unwind(AssertUnwindSafe(move || drop(guard))) {
                                Ok(()) => (res, true),
                                Err(e) => (RecvRes::DropPanic(panic_msg(e)), false),
                            }
                        }
                        Err(RecvError::Closed) => (RecvRes::Closed, false),
                        Err(RecvError::Parse(e)) => (RecvRes::Parse(e.into()), false),
                        Err(RecvError::Read(e)) => (RecvRes::Read(e.kind()), false),
                    }
                },
                max_polls,
            )
        }));
        dl.push(unsafe { (*src_ptr).at });
        match r {
            Ok(Some(((RecvRes::Retained, _), p))) => {
                polls += p;
                dl.pop();
                continue;
            }
            Ok(Some(((res, cont), p))) => {
                polls += p;
                let is_read = matches!(res, RecvRes::Read(_));
                out.push(res);
                if cont {
                    continue;
                }
                if is_read && retries_left > 0 {
                    retries_left -= 1;
                    continue;
                }
                break;
            }
            Ok(None) => {
                dl.pop();
                return RecvReport {
                    events: out,
                    delivered: dl,
                    polls,
                    stalled: true,
                };
            }
            Err(e) => {
                out.push(RecvRes::Panic(panic_msg(e)));
                break;
            }
        }
    }
    RecvReport {
        events: out,
        delivered: dl,
        polls,
        stalled: false,
    }
}

pub struct JoinedReport {
    pub sends: Vec<SendRes>,
    pub recvs: Vec<RecvRes>,
    pub join: JoinReport,
    pub written: Vec<u8>,
    pub log: Vec<Event>,
    pub panic: Option<String>,
}

/// Joined set-up: sender task and receiver task over a bounded pipe, polled per `schedule`.
#[allow(clippy::too_many_arguments)]
pub fn async_joined<T: Shape + ?Sized>(
    msgs: &[Value],
    routes: &[u8],
    max_msg_len: usize,
    cap: usize,
    wscript: Vec<WOut>,
    rscript: Vec<ROut>,
    fscript: Vec<bool>,
    schedule: &[u8],
    max_polls: usize,
) -> JoinedReport {
    let (wend, rend) = pipe(cap, wscript, rscript, fscript, max_polls * 4 + 64);
    let state = wend.0.clone();
    let sends = std::cell::RefCell::new(Vec::new());
    let recvs = std::cell::RefCell::new(Vec::new());
    let max_events = msgs.len() + 3;
    let r = catch_unwind(AssertUnwindSafe(|| {
        let closer = wend.clone();
        let sender_task = async {
            let mut sender = match capacity_override() {
                Some(cap) => AsyncSender::<T, _>::new(IoBuffer::new(wend, cap, buf_align::<T>())),
                None => AsyncSender::<T, _>::io(wend, max_msg_len),
            };
            for (i, m) in msgs.iter().enumerate() {
                let route = Route::new(&[routes.get(i).copied().unwrap_or(0)]);
                let res = async {
                    let guard = match sender.alloc().await {
                        Ok(g) => g,
                        Err(e) => return SendRes::AllocErr(e.kind()),
                    };
                    let mut guard = match init_guard!(T, async_guard_default, guard, i, m, &route) {
                        Ok(g) => g,
                        Err(e) => return SendRes::Emplace(e.into()),
                    };
                    apply_post_ops::<T>(i, &mut *guard);
                    match guard.send().await {
                        Ok(()) => SendRes::Sent,
                        Err(e) => SendRes::IoErr(e.kind()),
                    }
                }
                .await;
                let failed = res != SendRes::Sent;
                sends.borrow_mut().push(res);
                if failed {
                    break;
                }
            }
            closer.close();
        };
        let receiver_task = async {
            let mut receiver = match capacity_override() {
                Some(cap) => AsyncReceiver::<T, _>::new(IoBuffer::new(rend, cap, buf_align::<T>())),
                None => AsyncReceiver::<T, _>::io(rend, max_msg_len),
            };
            let mut retained: Option<Value> = None;
            let mut msg_idx = 0usize;
            while recvs.borrow().len() < max_events {
                match receiver.recv().await {
                    Ok(guard) => {
                        let mut ro = shallow_read::<T>(&*guard, &*guard as *const T as *const u8 as usize);
                        if retained.is_none() && retain_bit(msg_idx) {
                            retained = Some(ro.value);
                            guard.retain();
                            continue;
                        }
                        if let Some(prev) = retained.take() {
                            if prev != ro.value {
                                ro.anomalies.push(format!("after retain() the next recv() yields {} instead of the retained {}", ro.value.show(), prev.show()));
                            }
                        }
                        msg_idx += 1;
                        recvs.borrow_mut().push(RecvRes::Msg {
                            value: ro.value,
                            size: ro.size,
                            anomalies: ro.anomalies,
                            delivered: 0,
                            view_len: ro.bytes_len,
                        });
                        drop(guard);
                    }
                    Err(RecvError::Closed) => {
                        recvs.borrow_mut().push(RecvRes::Closed);
                        break;
                    }
                    Err(RecvError::Parse(e)) => {
                        recvs.borrow_mut().push(RecvRes::Parse(e.into()));
                        break;
                    }
                    Err(RecvError::Read(e)) => {
                        recvs.borrow_mut().push(RecvRes::Read(e.kind()));
                        break;
                    }
                }
            }
        };
        run_pair(Box::pin(sender_task), Box::pin(receiver_task), schedule, max_polls)
    }));
    let (join, panic) = match r {
        Ok(j) => (j, None),
        Err(e) => (
            JoinReport {
                polls: 0,
                switches_inside: 0,
                completed: [false, false],
                deadlock: false,
                budget_exceeded: false,
            },
            Some(panic_msg(e)),
        ),
    };
    let st = state.borrow();
    JoinedReport {
        sends: sends.into_inner(),
        recvs: recvs.into_inner(),
        join,
        written: st.written.clone(),
        log: st.log.clone(),
        panic,
    }
}

pub fn min_size_of<T: Shape + ?Sized>() -> usize {
    T::MIN_SIZE
}
