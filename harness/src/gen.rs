//! Deterministic grammar-based generator of `#[flat]` definitions ("programs")
//! plus the glue code for each of them. Used by build.rs (to emit Rust source)
//! and by the library at run time (to rebuild the very same `Ty` descriptions).
//!
//! Only depends on `desc.rs` and std.

use crate::desc::*;
use std::collections::BTreeMap;
use std::fmt::Write;

pub struct Rng(pub u64);
impl Rng {
    pub fn next(&mut self) -> u64 {
        self.0 = self.0.wrapping_add(0x9E3779B97F4A7C15);
        let mut z = self.0;
        z = (z ^ (z >> 30)).wrapping_mul(0xBF58476D1CE4E5B9);
        z = (z ^ (z >> 27)).wrapping_mul(0x94D049BB133111EB);
        z ^ (z >> 31)
    }
    pub fn below(&mut self, n: usize) -> usize {
        (self.next() % n as u64) as usize
    }
    pub fn chance(&mut self, num: usize, den: usize) -> bool {
        self.below(den) < num
    }
    pub fn pick<'a, T>(&mut self, xs: &'a [T]) -> &'a T {
        &xs[self.below(xs.len())]
    }
}

pub struct Corpus {
    /// top-level shapes, in registry order
    pub shapes: Vec<Ty>,
}

struct Gen {
    rng: Rng,
    counter: usize,
    prefix: String,
}

fn b(t: Ty) -> Box<Ty> {
    Box::new(t)
}

impl Gen {
    fn name(&mut self, kind: &str) -> String {
        self.counter += 1;
        format!("{}{}{}", self.prefix, kind, self.counter)
    }

    fn scalar(&mut self, portable: bool) -> Ty {
        if portable {
            match self.rng.below(10) {
                0 => Ty::Prim(Prim::U8),
                1 => Ty::Prim(Prim::I8),
                2 | 3 => Ty::Bool,
                4 | 5 => Ty::PFloat {
                    size: *self.rng.pick(&[4, 8]),
                    be: self.rng.chance(1, 2),
                },
                _ => Ty::PInt {
                    size: *self.rng.pick(&[2, 4, 8]),
                    be: self.rng.chance(1, 2),
                    signed: self.rng.chance(1, 2),
                },
            }
        } else {
            match self.rng.below(20) {
                0..=11 => Ty::Prim(*self.rng.pick(&Prim::ALL)),
                12 | 13 => Ty::Bool,
                14 | 15 => Ty::PFloat {
                    size: *self.rng.pick(&[4, 8]),
                    be: self.rng.chance(1, 2),
                },
                _ => Ty::PInt {
                    size: *self.rng.pick(&[2, 4, 8]),
                    be: self.rng.chance(1, 2),
                    signed: self.rng.chance(1, 2),
                },
            }
        }
    }

    /// A sized type of non-zero size.
    fn sized(&mut self, depth: usize, portable: bool, need_default: bool) -> Ty {
        let k = if depth == 0 { 0 } else { self.rng.below(10) };
        match k {
            0..=4 => self.scalar(portable),
            5 | 6 => {
                let n = 1 + self.rng.below(4);
                Ty::Array(b(self.sized(depth - 1, portable, need_default)), n)
            }
            7 | 8 => self.sized_struct(depth - 1, portable, need_default),
            _ => self.sized_enum(depth - 1, portable, need_default),
        }
    }

    /// Field of a sized composite: occasionally a ZST.
    fn sized_field(&mut self, depth: usize, portable: bool, need_default: bool) -> Ty {
        match self.rng.below(24) {
            0 => Ty::Unit,
            1 => Ty::Array(b(self.sized(depth.min(1), portable, need_default)), 0),
            _ => self.sized(depth, portable, need_default),
        }
    }

    fn sized_struct(&mut self, depth: usize, portable: bool, need_default: bool) -> Ty {
        let default = need_default || self.rng.chance(1, 2);
        let nf = 1 + self.rng.below(4);
        let fields = (0..nf).map(|_| self.sized_field(depth, portable, default)).collect();
        Ty::Struct(Box::new(StructDef {
            generic_of: None,
            name: self.name("S"),
            tuple: self.rng.chance(1, 3),
            fields,
            sized: true,
            portable,
            default,
        }))
    }

    fn tag(&mut self, portable: bool) -> TagTy {
        if portable {
            TagTy::U8
        } else {
            *self.rng.pick(&[TagTy::U8, TagTy::U8, TagTy::U16, TagTy::U32])
        }
    }

    fn sized_enum(&mut self, depth: usize, portable: bool, need_default: bool) -> Ty {
        let default = need_default || self.rng.chance(1, 2);
        let nv = 1 + self.rng.below(4);
        let clike = self.rng.chance(1, 6);
        let mut variants = Vec::new();
        for _ in 0..nv {
            let kind = if clike {
                VarKind::Unit
            } else {
                *self.rng.pick(&[VarKind::Unit, VarKind::Tuple, VarKind::Tuple, VarKind::Named])
            };
            let fields = if kind == VarKind::Unit {
                vec![]
            } else {
                let nf = 1 + self.rng.below(3);
                (0..nf).map(|_| self.sized_field(depth, portable, default)).collect()
            };
            variants.push(Variant { kind, fields });
        }
        let mut def = None;
        if default {
            let units: Vec<usize> = (0..variants.len()).filter(|i| variants[*i].kind == VarKind::Unit).collect();
            let i = if units.is_empty() {
                let pos = self.rng.below(variants.len() + 1);
                variants.insert(
                    pos,
                    Variant {
                        kind: VarKind::Unit,
                        fields: vec![],
                    },
                );
                pos
            } else {
                *self.rng.pick(&units)
            };
            def = Some(i);
        }
        Ty::Enum(Box::new(EnumDef {
            generic_of: None,
            name: self.name("E"),
            tag: self.tag(portable),
            variants,
            sized: true,
            portable,
            default: def,
        }))
    }

    fn len_ty(&mut self, portable: bool) -> LenTy {
        if portable {
            *self.rng.pick(&LenTy::PORTABLE)
        } else {
            // bias to the small ones, where limits are reachable
            *self.rng.pick(&[
                LenTy::U8,
                LenTy::U8,
                LenTy::U16,
                LenTy::U16,
                LenTy::U32,
                LenTy::U64,
                LenTy::Usize,
                LenTy::LeU16,
                LenTy::BeU16,
                LenTy::LeU32,
                LenTy::BeU32,
                LenTy::LeU64,
                LenTy::BeU64,
            ])
        }
    }

    fn unsized_(&mut self, depth: usize, portable: bool, need_default: bool) -> Ty {
        let k = if depth == 0 { self.rng.below(4) } else { self.rng.below(12) };
        match k {
            0 | 1 => Ty::FlatVec(b(self.sized(depth.min(2), portable, need_default)), self.len_ty(portable)),
            2 => Ty::FlatString(self.len_ty(portable)),
            3 => Ty::FlatVec(b(self.scalar(portable)), self.len_ty(portable)),
            4 | 5 => {
                let item = if self.rng.chance(1, 4) {
                    self.sized(depth - 1, portable, need_default)
                } else {
                    self.unsized_(depth - 1, portable, need_default)
                };
                Ty::FlexVec(b(item), self.len_ty(portable))
            }
            6..=8 => self.unsized_struct(depth - 1, portable, need_default),
            _ => self.unsized_enum(depth - 1, portable, need_default),
        }
    }

    fn unsized_struct(&mut self, depth: usize, portable: bool, need_default: bool) -> Ty {
        let default = need_default || self.rng.chance(1, 2);
        let nf = self.rng.below(4);
        let mut fields: Vec<Ty> = (0..nf).map(|_| self.sized_field(depth.min(2), portable, default)).collect();
        fields.push(self.unsized_(depth, portable, default));
        // `default = true` on an unsized *tuple* struct is not accepted by the macro
        // (it expands to `Self::DefaultEmplacer(..)`), so those are always named.
        let tuple = self.rng.chance(1, 3) && !default;
        Ty::Struct(Box::new(StructDef {
            generic_of: None,
            name: self.name("U"),
            tuple,
            fields,
            sized: false,
            portable,
            default,
        }))
    }

    fn unsized_enum(&mut self, depth: usize, portable: bool, need_default: bool) -> Ty {
        let default = need_default || self.rng.chance(1, 2);
        let nv = 1 + self.rng.below(4);
        let mut variants = Vec::new();
        for _ in 0..nv {
            let kind = *self.rng.pick(&[VarKind::Unit, VarKind::Tuple, VarKind::Tuple, VarKind::Named]);
            let fields = if kind == VarKind::Unit {
                vec![]
            } else {
                let nf = self.rng.below(3);
                let mut fs: Vec<Ty> = (0..nf).map(|_| self.sized_field(depth.min(2), portable, default)).collect();
                if self.rng.chance(2, 3) {
                    fs.push(self.unsized_(depth, portable, default));
                } else {
                    fs.push(self.sized(depth.min(2), portable, default));
                }
                fs
            };
            variants.push(Variant { kind, fields });
        }
        // C-like enums cannot be unsized: make sure one variant carries data
        if variants.iter().all(|v| v.kind == VarKind::Unit) {
            variants.push(Variant {
                kind: VarKind::Tuple,
                fields: vec![self.unsized_(depth, portable, default)],
            });
        }
        let mut def = None;
        if default {
            let units: Vec<usize> = (0..variants.len()).filter(|i| variants[*i].kind == VarKind::Unit).collect();
            let i = if units.is_empty() {
                let pos = self.rng.below(variants.len() + 1);
                variants.insert(
                    pos,
                    Variant {
                        kind: VarKind::Unit,
                        fields: vec![],
                    },
                );
                pos
            } else {
                *self.rng.pick(&units)
            };
            def = Some(i);
        }
        Ty::Enum(Box::new(EnumDef {
            generic_of: None,
            name: self.name("V"),
            tag: self.tag(portable),
            variants,
            sized: false,
            portable,
            default: def,
        }))
    }
}

fn prim(p: Prim) -> Ty {
    Ty::Prim(p)
}
fn sstruct(name: &str, fields: Vec<Ty>, sized: bool, portable: bool, default: bool) -> Ty {
    Ty::Struct(Box::new(StructDef {
            generic_of: None,
        name: name.into(),
        tuple: false,
        fields,
        sized,
        portable,
        default,
    }))
}
fn var(kind: VarKind, fields: Vec<Ty>) -> Variant {
    Variant { kind, fields }
}
fn senum(name: &str, tag: TagTy, variants: Vec<Variant>, sized: bool, portable: bool, default: Option<usize>) -> Ty {
    Ty::Enum(Box::new(EnumDef {
            generic_of: None,
        name: name.into(),
        tag,
        variants,
        sized,
        portable,
        default,
    }))
}
fn fvec(t: Ty, l: LenTy) -> Ty {
    Ty::FlatVec(b(t), l)
}
fn flex(t: Ty, l: LenTy) -> Ty {
    Ty::FlexVec(b(t), l)
}
fn pint(size: usize, be: bool, signed: bool) -> Ty {
    Ty::PInt { size, be, signed }
}

/// Hand-written anchors: the repository's own test types, the exact shapes the
/// property texts name, and the container instantiation matrix.
pub fn anchors() -> Vec<Ty> {
    use LenTy as L;
    use Prim::*;
    use VarKind::*;
    let mut v = Vec::new();

    // --- repository test types
    let sized_struct = sstruct(
        "ASizedStruct",
        vec![prim(U8), prim(U16), prim(U32), Ty::Array(b(prim(U64)), 4)],
        true,
        false,
        true,
    );
    let sized_enum = senum(
        "ASizedEnum",
        TagTy::U32,
        vec![
            var(Unit, vec![]),
            var(Tuple, vec![prim(U16), prim(U8)]),
            var(Named, vec![prim(U8), prim(U16)]),
            var(Tuple, vec![prim(U32)]),
        ],
        true,
        false,
        Some(0),
    );
    let unsized_struct = sstruct(
        "AUnsizedStruct",
        vec![prim(U8), prim(U16), fvec(prim(U64), L::U32)],
        false,
        false,
        true,
    );
    let unsized_enum = senum(
        "AUnsizedEnum",
        TagTy::U8,
        vec![
            var(Unit, vec![]),
            var(Tuple, vec![prim(U8), prim(U16)]),
            var(Named, vec![prim(U32), fvec(prim(U8), L::U16)]),
        ],
        false,
        false,
        Some(0),
    );
    let unsized_sized_enum = senum(
        "AUnsizedSizedEnum",
        TagTy::U8,
        vec![
            var(Unit, vec![]),
            var(Tuple, vec![prim(U8), prim(U16)]),
            var(Named, vec![prim(U8), prim(U16), Ty::Array(b(prim(U8)), 4)]),
        ],
        false,
        false,
        Some(0),
    );
    let test_msg = senum(
        "ATestMsg",
        TagTy::U8,
        vec![
            var(Unit, vec![]),
            var(Tuple, vec![prim(I32)]),
            var(Tuple, vec![fvec(prim(I32), L::U16)]),
        ],
        false,
        false,
        Some(0),
    );
    let tag_only = senum("ATagOnly", TagTy::U8, vec![var(Unit, vec![]), var(Unit, vec![])], true, false, Some(0));
    v.extend([
        sized_struct.clone(),
        sized_enum.clone(),
        unsized_struct,
        unsized_enum.clone(),
        unsized_sized_enum,
        test_msg,
        tag_only.clone(),
    ]);

    // --- portable test types
    let p_struct = sstruct(
        "APortableStruct",
        vec![prim(U8), pint(2, false, false), pint(4, false, false), Ty::Array(b(pint(8, false, false)), 4)],
        true,
        true,
        true,
    );
    let p_enum = senum(
        "APortableEnum",
        TagTy::U8,
        vec![
            var(Unit, vec![]),
            var(Tuple, vec![Ty::PFloat { size: 4, be: false }, p_struct.clone()]),
            var(Tuple, vec![p_struct.clone()]),
        ],
        true,
        true,
        Some(0),
    );
    let p_ustruct = sstruct(
        "APortableUnsizedStruct",
        vec![pint(2, false, false), fvec(pint(4, false, false), L::LeU16)],
        false,
        true,
        true,
    );
    let p_uenum = senum(
        "APortableUnsizedEnum",
        TagTy::U8,
        vec![
            var(Unit, vec![]),
            var(Tuple, vec![Ty::PFloat { size: 4, be: false }, p_struct.clone()]),
            var(Tuple, vec![p_ustruct.clone()]),
        ],
        false,
        true,
        Some(0),
    );
    v.extend([p_struct.clone(), p_enum, p_ustruct, p_uenum]);
    // more portable composites (big-endian, bool, strings, flex)
    v.push(sstruct(
        "APortableMix",
        vec![
            Ty::Bool,
            pint(8, true, true),
            Ty::PFloat { size: 8, be: true },
            Ty::Array(b(pint(2, true, false)), 3),
            Ty::FlatString(L::BeU16),
        ],
        false,
        true,
        true,
    ));
    v.push(sstruct(
        "APortableFlex",
        vec![pint(4, true, false), flex(fvec(pint(2, false, true), L::U8), L::LeU16)],
        false,
        true,
        true,
    ));
    v.push(senum(
        "APortableMsg",
        TagTy::U8,
        vec![
            var(Unit, vec![]),
            var(Named, vec![pint(4, false, true), Ty::Bool]),
            var(Tuple, vec![pint(2, true, false), Ty::FlatString(L::LeU32)]),
            var(Tuple, vec![flex(Ty::FlatString(L::U8), L::BeU16)]),
        ],
        false,
        true,
        Some(0),
    ));

    // portable / native unsized enums in which every variant carries data (MIN_SIZE > DATA_OFFSET), also as FlexVec items
    let port_nounit = senum(
        "APortNoUnit",
        TagTy::U8,
        vec![var(Tuple, vec![pint(4, false, false)]), var(Tuple, vec![Ty::FlatString(L::LeU16)]), var(Named, vec![pint(2, true, false), fvec(pint(2, false, false), L::U8)])],
        false,
        true,
        None,
    );
    v.push(port_nounit.clone());
    v.push(flex(port_nounit, L::LeU16));
    let nounit = senum(
        "ANoUnit",
        TagTy::U8,
        vec![var(Tuple, vec![prim(U64)]), var(Tuple, vec![fvec(prim(U16), L::U16)]), var(Named, vec![prim(U32), Ty::FlatString(L::U8)])],
        false,
        false,
        None,
    );
    v.push(nounit.clone());
    v.push(flex(nounit, L::U16));

    // --- shapes named in the property texts
    v.push(flex(prim(U8), L::U8));
    v.push(fvec(prim(U8), L::U32));
    v.push(Ty::FlatString(L::U32));
    v.push(sstruct("AU32VecU8", vec![prim(U32), fvec(prim(U8), L::U8)], false, false, true));
    // a Bool at byte 4 of a struct, inside containers (C19)
    let with_bool = sstruct("AWithBool", vec![prim(U32), Ty::Bool, prim(U16)], true, false, true);
    v.push(with_bool.clone());
    v.push(fvec(with_bool.clone(), L::U16));
    v.push(flex(fvec(with_bool.clone(), L::U8), L::U16));
    v.push(flex(with_bool.clone(), L::U8));
    v.push(Ty::Array(b(with_bool.clone()), 3));
    v.push(fvec(Ty::Bool, L::U8));
    v.push(fvec(tag_only.clone(), L::U8));
    v.push(fvec(sized_enum.clone(), L::U16));
    v.push(flex(unsized_enum.clone(), L::U16));
    v.push(flex(Ty::FlatString(L::U8), L::U8));
    v.push(flex(Ty::FlatString(L::U16), L::U32));
    v.push(fvec(Ty::Array(b(Ty::Bool), 3), L::U8));
    v.push(sstruct(
        "ANestedStr",
        vec![prim(U16), with_bool.clone(), Ty::FlatString(L::U16)],
        false,
        false,
        true,
    ));
    v.push(senum(
        "AEnumStr",
        TagTy::U16,
        vec![
            var(Tuple, vec![Ty::FlatString(L::U8)]),
            var(Unit, vec![]),
            var(Named, vec![with_bool.clone(), flex(Ty::FlatString(L::U8), L::U8)]),
        ],
        false,
        false,
        Some(1),
    ));

    // --- message shapes with trailing padding / odd extents (C05-C10)
    v.push(sstruct("AU64Str", vec![prim(U64), Ty::FlatString(L::U8)], false, false, true));
    v.push(senum(
        "AMsgPad",
        TagTy::U8,
        vec![
            var(Unit, vec![]),
            var(Tuple, vec![prim(U64)]),
            var(Named, vec![prim(U16), fvec(prim(U8), L::U8)]),
            var(Tuple, vec![flex(fvec(prim(U16), L::U8), L::U16)]),
        ],
        false,
        false,
        Some(0),
    ));
    v.push(sstruct(
        "AFlexMsg",
        vec![prim(U16), flex(fvec(prim(U8), L::U8), L::U16)],
        false,
        false,
        true,
    ));
    v.push(sstruct(
        "AAlign16",
        vec![prim(U8), prim(U128), fvec(prim(U16), L::U8)],
        false,
        false,
        true,
    ));

    // --- interior padding before a middle field, followed by a less aligned tail (struct and enum), also as FlexVec items
    let struct_pad = sstruct("AStructPad", vec![prim(U8), prim(U32), fvec(prim(U8), L::U8)], false, false, true);
    let enum_pad = senum(
        "AEnumPad",
        TagTy::U8,
        vec![
            var(Unit, vec![]),
            var(Named, vec![prim(U8), prim(U32), fvec(prim(U8), L::U8)]),
            var(Tuple, vec![prim(U8), prim(U32), prim(U8)]),
            var(Tuple, vec![prim(U16), prim(U8)]),
        ],
        false,
        false,
        Some(0),
    );
    v.push(struct_pad.clone());
    v.push(enum_pad.clone());
    v.push(flex(struct_pad.clone(), L::U8));
    v.push(flex(enum_pad.clone(), L::U16));
    v.push(flex(enum_pad, L::U8));
    let struct_pad64 = sstruct("AStructPad64", vec![prim(U64), prim(U8), fvec(prim(U8), L::U16)], false, false, true);
    v.push(struct_pad64.clone());
    // unsized struct with interior padding as the tail of an enum variant
    v.push(senum(
        "AEnumNest",
        TagTy::U8,
        vec![var(Unit, vec![]), var(Tuple, vec![struct_pad.clone()]), var(Tuple, vec![prim(U16), struct_pad64]), var(Named, vec![prim(U8), prim(U16)])],
        false,
        false,
        Some(0),
    ));
    // enum whose smallest (unit, default) variant is declared last
    v.push(senum(
        "AEnumLastDefault",
        TagTy::U8,
        vec![var(Tuple, vec![prim(U32), fvec(prim(U8), L::U16)]), var(Tuple, vec![prim(U16), prim(U16)]), var(Unit, vec![])],
        false,
        false,
        Some(2),
    ));

    // --- 16-bit offset types with items that can exceed 64 KiB (sealing offset not representable)
    v.push(flex(Ty::FlatString(L::LeU32), L::LeU16));
    v.push(flex(Ty::FlatString(L::U32), L::U16));
    v.push(flex(fvec(prim(U8), L::BeU32), L::BeU16));

    // --- FlexVec item matrix (C12)
    let flex_items: Vec<Ty> = vec![
        prim(U32),
        prim(U64),
        fvec(prim(U8), L::U8),
        fvec(prim(I32), L::U16),
        Ty::FlatString(L::U8),
        sstruct("AItemStruct", vec![prim(U16), fvec(prim(U8), L::U8)], false, false, true),
        unsized_enum.clone(),
        flex(fvec(prim(U8), L::U8), L::U8),
    ];
    let flex_lens = [L::U8, L::U16, L::U32, L::U64, L::LeU16, L::BeU32];
    for (i, it) in flex_items.iter().enumerate() {
        for (j, l) in flex_lens.iter().enumerate() {
            // full matrix would be 48 instantiations; take a Latin-square-like cover plus all of u8/u16
            if j < 2 || (i + j) % 3 == 0 {
                v.push(flex(it.clone(), *l));
            }
        }
    }

    // --- FlatVec / FlatString matrix (C11)
    let elems: Vec<Ty> = vec![
        prim(U8),
        prim(U16),
        prim(I32),
        prim(U64),
        prim(U128),
        Ty::Array(b(prim(U8)), 3),
        Ty::Bool,
        pint(4, false, false),
        pint(2, true, true),
        with_bool.clone(),
        sized_enum.clone(),
        prim(F64),
    ];
    let lens = [L::U8, L::U16, L::U32, L::U64, L::Usize, L::LeU16, L::BeU32, L::LeU64];
    for (i, e) in elems.iter().enumerate() {
        for (j, l) in lens.iter().enumerate() {
            if j == 0 || (i + j) % 4 == 0 {
                v.push(fvec(e.clone(), *l));
            }
        }
    }
    for l in LenTy::ALL {
        v.push(Ty::FlatString(l));
    }

    // --- instantiations of hand-written generic definitions (see GENERIC_SRC)
    for (t, l, n, tn, ln) in [(prim(U16), L::U8, 3usize, "u16", "u8"), (prim(U64), L::U16, 0, "u64", "u16"), (Ty::Bool, L::LeU32, 2, "::flatty::portable::Bool", "::flatty::portable::le::U32")] {
        let mut s = match sstruct("x", vec![Ty::Array(b(t.clone()), n), l.as_ty(), fvec(t.clone(), l)], false, false, true) {
            Ty::Struct(s) => s,
            _ => unreachable!(),
        };
        s.generic_of = Some("AGenU".into());
        s.name = format!("AGenU<{}, {}, {}>", tn, ln, n);
        v.push(Ty::Struct(s.clone()));
        let mut e = match senum(
            "x",
            TagTy::U16,
            vec![var(Tuple, vec![t.clone(), l.as_ty()]), var(Unit, vec![]), var(Named, vec![Ty::Array(b(t.clone()), n), Ty::Struct(s.clone())])],
            false,
            false,
            Some(1),
        ) {
            Ty::Enum(e) => e,
            _ => unreachable!(),
        };
        e.generic_of = Some("AGenV".into());
        e.name = format!("AGenV<{}, {}, {}>", tn, ln, n);
        v.push(Ty::Enum(e));
        let mut g = match sstruct("x", vec![prim(U8), Ty::Array(b(t.clone()), n), t.clone()], true, false, true) {
            Ty::Struct(s) => s,
            _ => unreachable!(),
        };
        g.generic_of = Some("AGenS".into());
        g.name = format!("AGenS<{}, {}>", tn, n);
        v.push(Ty::Struct(g));
    }

    // --- scalars and arrays as top-level types
    for p in Prim::ALL {
        v.push(prim(p));
    }
    v.push(Ty::Bool);
    v.push(Ty::Unit);
    for be in [false, true] {
        for size in [2, 4, 8] {
            for signed in [false, true] {
                v.push(pint(size, be, signed));
            }
        }
        for size in [4, 8] {
            v.push(Ty::PFloat { size, be });
        }
    }
    v.push(Ty::Array(b(prim(U16)), 5));
    v.push(Ty::Array(b(Ty::Bool), 4));
    v.push(Ty::Array(b(sized_struct), 2));
    // arrays whose element is zero-sized (unit, empty array, field-less struct)
    v.push(Ty::Array(b(Ty::Unit), 3));
    v.push(Ty::Array(b(Ty::Array(b(prim(U16)), 0)), 2));
    let zst = sstruct("AZst", vec![Ty::Unit, Ty::Array(b(prim(U32)), 0)], true, false, true);
    v.push(sstruct(
        "AZstArr",
        vec![prim(U8), Ty::Array(b(Ty::Unit), 2), Ty::Array(b(Ty::Array(b(prim(U16)), 0)), 3), Ty::Array(b(zst.clone()), 2), Ty::Bool],
        true,
        false,
        true,
    ));
    v.push(sstruct("AZstArrTail", vec![Ty::Array(b(zst.clone()), 3), fvec(prim(U8), L::U8)], false, false, true));
    // containers of zero-sized items (length types of at most 16 bits: the reference decoder materialises the items)
    v.push(fvec(Ty::Unit, L::U8));
    v.push(fvec(Ty::Array(b(prim(U16)), 0), L::U16));
    v.push(fvec(zst.clone(), L::U8));
    v.push(flex(Ty::Unit, L::U8));
    v.push(flex(zst.clone(), L::U16));
    v.push(sstruct("AZstVecTail", vec![prim(U16), fvec(Ty::Unit, L::U8)], false, false, true));
    v.push(flex(fvec(Ty::Unit, L::U8), L::U8));
    // an item that together with its slot is larger than the offset type can express: exactly one fits (marked L::MAX)
    v.push(flex(Ty::Array(b(prim(U8)), 255), L::U8));
    v.push(flex(sstruct("ABig300", vec![Ty::Array(b(prim(U8)), 150), Ty::Array(b(prim(U16)), 75)], true, false, false), L::U8));
    // more than 256 variants under a 16-bit tag (variant #256 aliases #0 when the tag is narrowed to a byte)
    {
        let mut vars = vec![var(Tuple, vec![Ty::Array(b(prim(U8)), 64)])];
        for _ in 1..256 {
            vars.push(var(Unit, vec![]));
        }
        vars.push(var(Tuple, vec![prim(U8)]));
        vars.push(var(Named, vec![prim(U16), fvec(prim(U8), L::U8)]));
        v.push(senum("AEnum258", TagTy::U16, vars, false, false, Some(1)));
    }
    // items at least as large as the vector's alignment, but not a multiple of it
    v.push(fvec(Ty::Array(b(prim(U8)), 3), L::U16));
    v.push(fvec(Ty::Array(b(prim(U8)), 5), L::U32));
    v.push(fvec(Ty::Array(b(prim(U16)), 3), L::U32));
    // an unaligned sized prefix in front of a FlexVec whose offset type is more aligned than its items
    v.push(sstruct("AFlexTailOdd", vec![prim(U8), flex(fvec(prim(U8), L::U8), L::U16)], false, false, true));
    v.push(sstruct("AFlexTailOdd4", vec![prim(U16), prim(U8), flex(Ty::FlatString(L::U8), L::U32)], false, false, true));
    // an over-aligned zero-sized field at an unaligned position, followed by less aligned fields only
    v.push(senum(
        "AEnumZstOver",
        TagTy::U8,
        vec![var(Unit, vec![]), var(Named, vec![prim(U8), Ty::Array(b(prim(U32)), 0), fvec(prim(U8), L::U8)]), var(Tuple, vec![prim(U8), Ty::Array(b(prim(U64)), 0), prim(U8), Ty::FlatString(L::U8)])],
        false,
        false,
        Some(0),
    ));
    v.push(sstruct("AStructZstOver", vec![prim(U8), Ty::Array(b(prim(U32)), 0), prim(U8), fvec(prim(U8), L::U8)], false, false, true));
    // a zero-sized field between a less aligned and a more aligned one (struct, enum variant, aligned ZST)
    v.push(sstruct("AZstMid", vec![prim(U8), Ty::Unit, prim(U32), fvec(prim(U8), L::U8)], false, false, true));
    v.push(sstruct("AZstMid2", vec![prim(U8), Ty::Array(b(prim(U64)), 0), prim(U16), Ty::FlatString(L::U8)], false, false, true));
    v.push(sstruct("AZstMidSized", vec![prim(U8), Ty::Unit, prim(U32), Ty::Array(b(prim(U16)), 0), prim(U8)], true, false, true));
    v.push(senum(
        "AEnumZstMid",
        TagTy::U8,
        vec![var(Unit, vec![]), var(Named, vec![prim(U8), Ty::Unit, prim(U32), fvec(prim(U8), L::U8)]), var(Tuple, vec![Ty::Array(b(prim(U16)), 0), prim(U8), Ty::Unit, prim(U64)])],
        false,
        false,
        Some(0),
    ));

    let mut seen = std::collections::HashSet::new();
    v.retain(|t| seen.insert(t.rust()));
    v
}

/// Build the corpus: anchors (when `with_anchors`) + `n` random shapes from `seed`.
pub fn corpus(seed: u64, n: usize, with_anchors: bool, prefix: &str) -> Corpus {
    let mut shapes = if with_anchors { anchors() } else { vec![] };
    let mut g = Gen {
        rng: Rng(seed ^ 0x5EED_F1A7_7E57),
        counter: 0,
        prefix: prefix.to_string(),
    };
    let mut seen: std::collections::HashSet<String> = shapes.iter().map(|t| t.rust()).collect();
    let mut tries = 0;
    while shapes.len() < n + if with_anchors { anchors().len() } else { 0 } && tries < 100 * (n + 1) {
        tries += 1;
        let portable = g.rng.chance(1, 4);
        let need_default = g.rng.chance(1, 4);
        let depth = 1 + g.rng.below(3);
        let t = match g.rng.below(10) {
            0 => g.sized_struct(depth, portable, need_default),
            1 => g.sized_enum(depth, portable, need_default),
            2..=4 => g.unsized_struct(depth, portable, need_default),
            5..=7 => g.unsized_enum(depth, portable, need_default),
            _ => g.unsized_(depth, portable, need_default),
        };
        if t.weight() > 40 {
            continue;
        }
        if seen.insert(t.rust()) {
            shapes.push(t);
        }
    }
    Corpus { shapes }
}

/// All named definitions reachable from the shapes, dependencies first.
pub fn named_defs(shapes: &[Ty]) -> Vec<Ty> {
    fn walk(t: &Ty, out: &mut Vec<Ty>, seen: &mut BTreeMap<String, ()>) {
        match t {
            Ty::Array(x, _) | Ty::FlatVec(x, _) | Ty::FlexVec(x, _) => walk(x, out, seen),
            Ty::Struct(s) => {
                for f in &s.fields {
                    walk(f, out, seen);
                }
                if seen.insert(s.name.clone(), ()).is_none() {
                    out.push(t.clone());
                }
            }
            Ty::Enum(e) => {
                for v in &e.variants {
                    for f in &v.fields {
                        walk(f, out, seen);
                    }
                }
                if seen.insert(e.name.clone(), ()).is_none() {
                    out.push(t.clone());
                }
            }
            _ => {}
        }
    }
    let mut out = Vec::new();
    let mut seen = BTreeMap::new();
    for s in shapes {
        walk(s, &mut out, &mut seen);
    }
    out
}

// ---------------------------------------------------------------------------
// code emission

fn field_name(tuple: bool, i: usize) -> String {
    if tuple {
        format!("{}", i)
    } else {
        format!("f{}", i)
    }
}

fn flat_attr(sized: bool, portable: bool, default: bool, tag: Option<TagTy>) -> String {
    let mut args = vec![];
    if !sized {
        args.push("sized = false".to_string());
    }
    if portable {
        args.push("portable = true".to_string());
    }
    if default {
        args.push("default = true".to_string());
    }
    if let Some(t) = tag {
        if t != TagTy::U8 {
            args.push(format!("tag_type = \"{}\"", t.rust()));
        }
    }
    format!("#[::flatty::flat({})]", args.join(", "))
}

fn emit_struct(out: &mut String, s: &StructDef) {
    let name = &s.name;
    // constructor path (generic instantiations: `Base::<args>`-free spelling via the base name)
    let base = s.generic_of.clone().unwrap_or_else(|| name.clone());
    if s.generic_of.is_none() {
        writeln!(out, "{}", flat_attr(s.sized, s.portable, s.default, None)).unwrap();
        if s.sized {
            writeln!(out, "#[derive(Clone, Debug, PartialEq)]").unwrap();
        }
        if s.tuple {
            let fs: Vec<String> = s.fields.iter().map(|f| format!("pub {}", f.rust())).collect();
            writeln!(out, "pub struct {}({});", name, fs.join(", ")).unwrap();
        } else {
            let fs: Vec<String> = s.fields.iter().enumerate().map(|(i, f)| format!("pub f{}: {}", i, f.rust())).collect();
            writeln!(out, "pub struct {} {{ {} }}", name, fs.join(", ")).unwrap();
        }
    }
    // glue
    writeln!(out, "impl Shape for {} {{", name).unwrap();
    writeln!(out, "    fn ty() -> Ty {{ named({:?}) }}", name).unwrap();
    writeln!(out, "    fn read(&self, rec: &mut Recorder) -> Value {{").unwrap();
    writeln!(out, "        rec.enter(self, None);").unwrap();
    writeln!(out, "        let mut fs = Vec::new();").unwrap();
    for (i, _) in s.fields.iter().enumerate() {
        writeln!(
            out,
            "        rec.push({i}); fs.push(self.{f}.read(rec)); rec.pop();",
            i = i,
            f = field_name(s.tuple, i)
        )
        .unwrap();
    }
    writeln!(out, "        Value::Struct(fs)").unwrap();
    writeln!(out, "    }}").unwrap();
    writeln!(
        out,
        "    unsafe fn emplace_val<'a>(v: &Value, bytes: &'a mut [u8], route: &Route) -> Result<&'a mut Self, Error> {{"
    )
    .unwrap();
    if s.sized {
        writeln!(out, "        let _ = route; <Self as SizedShape>::from_val(v).emplace_unchecked(bytes)").unwrap();
    } else {
        writeln!(out, "        let fs = v.items();").unwrap();
        let inits: Vec<String> = s
            .fields
            .iter()
            .enumerate()
            .map(|(i, f)| {
                let e = format!("ValEmplacer::<{}>::new(&fs[{}], route)", f.rust(), i);
                if s.tuple {
                    e
                } else {
                    format!("f{}: {}", i, e)
                }
            })
            .collect();
        if s.tuple {
            writeln!(out, "        {}Init({}).emplace_unchecked(bytes)", base, inits.join(", ")).unwrap();
        } else {
            writeln!(out, "        {}Init {{ {} }}.emplace_unchecked(bytes)", base, inits.join(", ")).unwrap();
        }
    }
    writeln!(out, "    }}").unwrap();
    writeln!(out, "    fn mutate(&mut self, path: &[u16], op: &Op) -> OpOut {{").unwrap();
    writeln!(out, "        match path.split_first() {{").unwrap();
    writeln!(
        out,
        "            None => {},",
        if s.sized { "sized_op(self, op)" } else { "unsized_op(self, op)" }
    )
    .unwrap();
    for (i, _) in s.fields.iter().enumerate() {
        writeln!(
            out,
            "            Some((&{i}, rest)) => self.{f}.mutate(rest, op),",
            i = i,
            f = field_name(s.tuple, i)
        )
        .unwrap();
    }
    writeln!(out, "            _ => OpOut::NA,").unwrap();
    writeln!(out, "        }}").unwrap();
    writeln!(out, "    }}").unwrap();
    emit_default_glue(out, s.default, s.sized);
    if s.sized {
        writeln!(
            out,
            "    fn native_size_align() -> Option<(usize, usize)> {{ Some((::core::mem::size_of::<Self>(), ::core::mem::align_of::<Self>())) }}"
        )
        .unwrap();
    }
    writeln!(out, "}}").unwrap();
    if s.sized {
        writeln!(out, "impl SizedShape for {} {{", name).unwrap();
        writeln!(out, "    fn from_val(v: &Value) -> Self {{").unwrap();
        writeln!(out, "        let fs = v.items();").unwrap();
        let inits: Vec<String> = s
            .fields
            .iter()
            .enumerate()
            .map(|(i, f)| {
                let e = format!("<{} as SizedShape>::from_val(&fs[{}])", f.rust(), i);
                if s.tuple {
                    e
                } else {
                    format!("f{}: {}", i, e)
                }
            })
            .collect();
        if s.tuple {
            writeln!(out, "        {}({})", base, inits.join(", ")).unwrap();
        } else {
            writeln!(out, "        {} {{ {} }}", base, inits.join(", ")).unwrap();
        }
        writeln!(out, "    }}").unwrap();
        writeln!(out, "}}").unwrap();
    }
}

fn emit_default_glue(out: &mut String, default: bool, sized: bool) {
    if default && sized {
        writeln!(
            out,
            "    fn native_default() -> Option<Value> {{ Some(<Self as Default>::default().read_plain()) }}"
        )
        .unwrap();
    }
    if default {
        writeln!(out, "    const HAS_DEFAULT: bool = true;").unwrap();
        writeln!(
            out,
            "    fn wrap_default_in_place<P: AsRef<[u8]> + AsMut<[u8]> + TrustedRef>(p: P) -> Option<Result<FlatWrap<Self, P>, Error>> {{ Some(FlatWrap::default_in_place(p)) }}"
        )
        .unwrap();
        writeln!(
            out,
            "    fn default_in_place_dyn(bytes: &mut [u8]) -> Option<Result<&mut Self, Error>> {{ Some(<Self as FlatDefault>::default_in_place(bytes)) }}"
        )
        .unwrap();
        writeln!(
            out,
            "    fn flex_push_default<L: LenShape>(fv: &mut ::flatty::FlexVec<Self, L>) -> Option<Result<(), Error>> {{ Some(fv.push_default().map(|_| ())) }}"
        )
        .unwrap();
        writeln!(
            out,
            "    fn guard_default<'a, B: ::flatty_io::WriteBuffer + 'a>(g: ::flatty_io::blocking::UninitSendGuard<'a, Self, B>) -> Result<Result<::flatty_io::blocking::SendGuard<'a, Self, B>, Error>, ::flatty_io::blocking::UninitSendGuard<'a, Self, B>> {{ Ok(g.default_in_place()) }}"
        )
        .unwrap();
        writeln!(
            out,
            "    fn async_guard_default<'a, B: ::flatty_io::AsyncWriteBuffer + 'a>(g: ::flatty_io::async_::UninitSendGuard<'a, Self, B>) -> Result<Result<::flatty_io::async_::SendGuard<'a, Self, B>, Error>, ::flatty_io::async_::UninitSendGuard<'a, Self, B>> {{ Ok(g.default_in_place()) }}"
        )
        .unwrap();
    }
}

fn variant_name(i: usize) -> String {
    format!("V{}", i)
}

fn emit_enum(out: &mut String, e: &EnumDef) {
    let name = &e.name;
    let base = e.generic_of.clone().unwrap_or_else(|| name.clone());
    if e.generic_of.is_none() {
        writeln!(out, "{}", flat_attr(e.sized, e.portable, e.default.is_some(), Some(e.tag))).unwrap();
        if e.sized {
            writeln!(out, "#[derive(Clone, Debug, PartialEq)]").unwrap();
        }
        writeln!(out, "pub enum {} {{", name).unwrap();
    }
    for (i, v) in e.variants.iter().enumerate() {
        if e.generic_of.is_some() {
            break;
        }
        let attr = if e.default == Some(i) { "#[default] " } else { "" };
        match v.kind {
            VarKind::Unit => writeln!(out, "    {}{},", attr, variant_name(i)).unwrap(),
            VarKind::Tuple => {
                let fs: Vec<String> = v.fields.iter().map(|f| f.rust()).collect();
                writeln!(out, "    {}{}({}),", attr, variant_name(i), fs.join(", ")).unwrap()
            }
            VarKind::Named => {
                let fs: Vec<String> = v.fields.iter().enumerate().map(|(k, f)| format!("f{}: {}", k, f.rust())).collect();
                writeln!(out, "    {}{} {{ {} }},", attr, variant_name(i), fs.join(", ")).unwrap()
            }
        }
    }
    if e.generic_of.is_none() {
        writeln!(out, "}}").unwrap();
    }

    // pattern binding all fields of variant i as b0, b1, ...
    let pat = |prefix: &str, i: usize, v: &Variant| -> String {
        let binds: Vec<String> = (0..v.fields.len()).map(|k| format!("b{}", k)).collect();
        match v.kind {
            VarKind::Unit => format!("{}::{}", prefix, variant_name(i)),
            VarKind::Tuple => format!("{}::{}({})", prefix, variant_name(i), binds.join(", ")),
            VarKind::Named => {
                let fs: Vec<String> = (0..v.fields.len()).map(|k| format!("f{}: b{}", k, k)).collect();
                format!("{}::{} {{ {} }}", prefix, variant_name(i), fs.join(", "))
            }
        }
    };

    writeln!(out, "impl Shape for {} {{", name).unwrap();
    writeln!(out, "    fn ty() -> Ty {{ named({:?}) }}", name).unwrap();
    writeln!(out, "    fn read(&self, rec: &mut Recorder) -> Value {{").unwrap();
    writeln!(out, "        rec.enter(self, None);").unwrap();
    if e.sized {
        writeln!(out, "        match self {{").unwrap();
    } else {
        writeln!(out, "        let tag = self.tag() as usize;").unwrap();
        writeln!(out, "        match self.as_ref() {{").unwrap();
    }
    let ref_prefix = if e.sized { base.clone() } else { format!("{}Ref", base) };
    for (i, v) in e.variants.iter().enumerate() {
        writeln!(out, "            {} => {{", pat(&ref_prefix, i, v)).unwrap();
        if !e.sized {
            writeln!(
                out,
                "                if tag != {i} {{ rec.anomaly(format!(\"tag() = {{}} but as_ref() is variant {i}\", tag)); }}",
                i = i
            )
            .unwrap();
        }
        writeln!(out, "                let mut fs = Vec::new();").unwrap();
        for k in 0..v.fields.len() {
            writeln!(out, "                rec.push({k}); fs.push(b{k}.read(rec)); rec.pop();", k = k).unwrap();
        }
        writeln!(out, "                Value::Enum({}, fs)", i).unwrap();
        writeln!(out, "            }}").unwrap();
    }
    writeln!(out, "        }}").unwrap();
    writeln!(out, "    }}").unwrap();

    writeln!(
        out,
        "    unsafe fn emplace_val<'a>(v: &Value, bytes: &'a mut [u8], route: &Route) -> Result<&'a mut Self, Error> {{"
    )
    .unwrap();
    if e.sized {
        writeln!(out, "        let _ = route; <Self as SizedShape>::from_val(v).emplace_unchecked(bytes)").unwrap();
    } else {
        writeln!(out, "        let (idx, fs) = match v {{ Value::Enum(i, fs) => (*i, fs), _ => panic!(\"harness: enum value expected\") }};").unwrap();
        writeln!(out, "        let _ = (fs, route);").unwrap();
        writeln!(out, "        match idx {{").unwrap();
        for (i, v) in e.variants.iter().enumerate() {
            let inits: Vec<String> = v
                .fields
                .iter()
                .enumerate()
                .map(|(k, f)| {
                    let ex = format!("ValEmplacer::<{}>::new(&fs[{}], route)", f.rust(), k);
                    if v.kind == VarKind::Named {
                        format!("f{}: {}", k, ex)
                    } else {
                        ex
                    }
                })
                .collect();
            let ctor = match v.kind {
                VarKind::Unit => format!("{}Init{}", base, variant_name(i)),
                VarKind::Tuple => format!("{}Init{}({})", base, variant_name(i), inits.join(", ")),
                VarKind::Named => format!("{}Init{} {{ {} }}", base, variant_name(i), inits.join(", ")),
            };
            writeln!(out, "            {} => {}.emplace_unchecked(bytes),", i, ctor).unwrap();
        }
        writeln!(out, "            _ => panic!(\"harness: variant index out of range\"),").unwrap();
        writeln!(out, "        }}").unwrap();
    }
    writeln!(out, "    }}").unwrap();

    writeln!(out, "    fn mutate(&mut self, path: &[u16], op: &Op) -> OpOut {{").unwrap();
    writeln!(out, "        let (first, rest) = match path.split_first() {{").unwrap();
    writeln!(
        out,
        "            None => return {},",
        if e.sized { "sized_op(self, op)" } else { "unsized_op(self, op)" }
    )
    .unwrap();
    writeln!(out, "            Some((f, r)) => (*f, r),").unwrap();
    writeln!(out, "        }};").unwrap();
    writeln!(out, "        let _ = (first, rest);").unwrap();
    if e.sized {
        writeln!(out, "        match self {{").unwrap();
    } else {
        writeln!(out, "        match self.as_mut() {{").unwrap();
    }
    let mut_prefix = if e.sized { base.clone() } else { format!("{}Mut", base) };
    for (i, v) in e.variants.iter().enumerate() {
        writeln!(out, "            {} => match first {{", pat(&mut_prefix, i, v)).unwrap();
        for k in 0..v.fields.len() {
            writeln!(out, "                {k} => b{k}.mutate(rest, op),", k = k).unwrap();
        }
        writeln!(out, "                _ => OpOut::NA,").unwrap();
        writeln!(out, "            }},").unwrap();
    }
    writeln!(out, "        }}").unwrap();
    writeln!(out, "    }}").unwrap();
    emit_default_glue(out, e.default.is_some(), e.sized);
    if e.sized {
        writeln!(
            out,
            "    fn native_size_align() -> Option<(usize, usize)> {{ Some((::core::mem::size_of::<Self>(), ::core::mem::align_of::<Self>())) }}"
        )
        .unwrap();
    }
    writeln!(out, "}}").unwrap();

    if e.sized {
        writeln!(out, "impl SizedShape for {} {{", name).unwrap();
        writeln!(out, "    fn from_val(v: &Value) -> Self {{").unwrap();
        writeln!(out, "        let (idx, fs) = match v {{ Value::Enum(i, fs) => (*i, fs), _ => panic!(\"harness: enum value expected\") }};").unwrap();
        writeln!(out, "        let _ = fs;").unwrap();
        writeln!(out, "        match idx {{").unwrap();
        for (i, v) in e.variants.iter().enumerate() {
            let inits: Vec<String> = v
                .fields
                .iter()
                .enumerate()
                .map(|(k, f)| {
                    let ex = format!("<{} as SizedShape>::from_val(&fs[{}])", f.rust(), k);
                    if v.kind == VarKind::Named {
                        format!("f{}: {}", k, ex)
                    } else {
                        ex
                    }
                })
                .collect();
            let ctor = match v.kind {
                VarKind::Unit => format!("{}::{}", base, variant_name(i)),
                VarKind::Tuple => format!("{}::{}({})", base, variant_name(i), inits.join(", ")),
                VarKind::Named => format!("{}::{} {{ {} }}", base, variant_name(i), inits.join(", ")),
            };
            writeln!(out, "            {} => {},", i, ctor).unwrap();
        }
        writeln!(out, "            _ => panic!(\"harness: variant index out of range\"),").unwrap();
        writeln!(out, "        }}").unwrap();
        writeln!(out, "    }}").unwrap();
        writeln!(out, "}}").unwrap();
    }
}

/// Shapes for which the flatty-io drivers are instantiated (C07-C10): the hand-written
/// unsized anchors, a few containers and sized types, and the first generated unsized shapes.
pub fn is_message_shape(t: &Ty, generated_so_far: &mut usize) -> bool {
    let name = t.rust();
    match t {
        Ty::Struct(s) if s.name.starts_with('A') => !s.sized || s.name == "ASizedStruct" || s.name == "APortableStruct",
        Ty::Enum(e) if e.name.starts_with('A') => !e.sized || e.name == "ASizedEnum",
        Ty::Struct(_) | Ty::Enum(_) => {
            if !t.is_sized() && t.weight() <= 14 && *generated_so_far < 24 {
                *generated_so_far += 1;
                true
            } else {
                false
            }
        }
        Ty::Prim(p) => *p == Prim::U32,
        _ => [
            "::flatty::FlatVec<u8, u32>",
            "::flatty::FlatString<u32>",
            "::flatty::FlatString<u8>",
            "::flatty::FlexVec<u8, u8>",
            "::flatty::FlexVec<::flatty::FlatVec<u8, u8>, u8>",
            "::flatty::FlexVec<::flatty::FlatString<u16>, u32>",
            "::flatty::FlexVec<AUnsizedEnum, u16>",
            "::flatty::FlatVec<AWithBool, u16>",
            "::flatty::FlexVec<::flatty::FlatVec<i32, u16>, u16>",
            "::flatty::FlatVec<u16, ::flatty::portable::le::U16>",
            "[::flatty::portable::Bool; 4]",
        ]
        .contains(&name.as_str()),
    }
}

/// Hand-written generic definitions (type, length-type and const parameters, where clauses);
/// the corpus contains several instantiations of each (`anchors()`).
pub const GENERIC_SRC: &str = r#"
#[::flatty::flat(sized = false, default = true)]
pub struct AGenU<T: ::flatty::Flat + Default, L: ::flatty::Flat + ::flatty::vec::Length + Default, const N: usize>
where
    [T; N]: Default,
{
    pub f0: [T; N],
    pub f1: L,
    pub f2: ::flatty::FlatVec<T, L>,
}

#[::flatty::flat(sized = false, default = true, tag_type = "u16")]
pub enum AGenV<T: ::flatty::Flat + Default, L: ::flatty::Flat + ::flatty::vec::Length + Default, const N: usize>
where
    [T; N]: Default,
{
    V0(T, L),
    #[default]
    V1,
    V2 { f0: [T; N], f1: AGenU<T, L, N> },
}

#[::flatty::flat(default = true)]
#[derive(Clone, Debug, PartialEq)]
pub struct AGenS<T: ::flatty::Flat + Default, const N: usize>
where
    [T; N]: Default,
{
    pub f0: u8,
    pub f1: [T; N],
    pub f2: T,
}
"#;

/// Emit the Rust source for a corpus: definitions, glue and registry.
pub fn emit(shapes: &[Ty], fn_name: &str) -> String {
    let mut out = String::new();
    if shapes.iter().any(|t| match t {
        Ty::Struct(s) => s.generic_of.is_some(),
        Ty::Enum(e) => e.generic_of.is_some(),
        _ => false,
    }) {
        out.push_str(GENERIC_SRC);
    }
    for d in named_defs(shapes) {
        match &d {
            Ty::Struct(s) => emit_struct(&mut out, s),
            Ty::Enum(e) => emit_enum(&mut out, e),
            _ => unreachable!(),
        }
        out.push('\n');
    }
    writeln!(out, "pub fn {}() -> Vec<Box<dyn DynShape>> {{", fn_name).unwrap();
    writeln!(out, "    vec![").unwrap();
    let mut n_io = 0;
    for s in shapes {
        if is_message_shape(s, &mut n_io) {
            writeln!(out, "        entry_io::<{}>(),", s.rust()).unwrap();
        } else {
            writeln!(out, "        entry::<{}>(),", s.rust()).unwrap();
        }
    }
    writeln!(out, "    ]").unwrap();
    writeln!(out, "}}").unwrap();
    out
}
