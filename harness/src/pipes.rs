//! Scripted pipes (blocking and async), a bounded in-memory async pipe and a
//! tiny deterministic executor. The harness owns every scheduling decision.

use futures::io::{AsyncRead, AsyncWrite};
use std::cell::RefCell;
use std::future::Future;
use std::io::{self, ErrorKind, Read, Write};
use std::pin::Pin;
use std::rc::Rc;
use std::sync::atomic::{AtomicUsize, Ordering};
use std::sync::Arc;
use std::task::{Context, Poll, Wake, Waker};

pub const BUDGET_MSG: &str = "PIPE-CALL-BUDGET-EXCEEDED";

#[derive(Clone, Debug, PartialEq)]
pub enum WOut {
    /// accept at most this many bytes (>= 1)
    Accept(usize),
    Zero,
    Err(ErrorKind),
    /// async only
    Pending,
}

#[derive(Clone, Debug, PartialEq)]
pub enum ROut {
    /// deliver at most this many bytes (>= 1)
    Deliver(usize),
    Err(ErrorKind),
    Eof,
    /// async only
    Pending,
}

#[derive(Clone, Debug, PartialEq)]
pub enum Event {
    Write { offered: usize, accepted: usize },
    WriteZero,
    WriteErr(ErrorKind),
    WritePending,
    Flush,
    FlushPending,
    FlushErr(ErrorKind),
    Read { room: usize, delivered: usize },
    ReadErr(ErrorKind),
    ReadEof,
    ReadPending,
}

pub struct ScriptSink {
    pub script: Vec<WOut>,
    pub tail: WOut,
    pub flush_script: Vec<bool>, // true = Pending first
    /// outcome of the k-th flush call that is not answered with Pending: Some(kind) = the flush fails
    pub flush_errs: Vec<Option<ErrorKind>>,
    /// outcome of the flush calls behind `flush_errs`
    pub flush_err_tail: Option<ErrorKind>,
    pub epos: usize,
    pub pos: usize,
    pub fpos: usize,
    pub data: Vec<u8>,
    pub calls: usize,
    pub budget: usize,
    pub log: Vec<Event>,
}

impl ScriptSink {
    pub fn new(script: Vec<WOut>, tail: WOut, budget: usize) -> Self {
        ScriptSink {
            script,
            tail,
            flush_script: vec![],
            flush_errs: vec![],
            flush_err_tail: None,
            epos: 0,
            pos: 0,
            fpos: 0,
            data: vec![],
            calls: 0,
            budget,
            log: vec![],
        }
    }
    fn next(&mut self) -> WOut {
        self.calls += 1;
        if self.calls > self.budget {
            panic!("{}: {} calls on the sink", BUDGET_MSG, self.calls);
        }
        let o = self.script.get(self.pos).cloned().unwrap_or_else(|| self.tail.clone());
        self.pos += 1;
        o
    }
    fn do_write(&mut self, buf: &[u8], allow_pending: bool) -> Poll<io::Result<usize>> {
        loop {
            match self.next() {
                WOut::Accept(k) => {
                    let n = k.max(1).min(buf.len());
                    self.data.extend_from_slice(&buf[..n]);
                    self.log.push(Event::Write {
                        offered: buf.len(),
                        accepted: n,
                    });
                    return Poll::Ready(Ok(n));
                }
                WOut::Zero => {
                    self.log.push(Event::WriteZero);
                    return Poll::Ready(Ok(0));
                }
                WOut::Err(k) => {
                    self.log.push(Event::WriteErr(k));
                    return Poll::Ready(Err(k.into()));
                }
                WOut::Pending => {
                    if allow_pending {
                        self.log.push(Event::WritePending);
                        return Poll::Pending;
                    }
                    // blocking pipes have no Pending: take the next outcome
                }
            }
        }
    }
}

impl Write for ScriptSink {
    fn write(&mut self, buf: &[u8]) -> io::Result<usize> {
        match self.do_write(buf, false) {
            Poll::Ready(r) => r,
            Poll::Pending => unreachable!(),
        }
    }
    fn flush(&mut self) -> io::Result<()> {
        self.log.push(Event::Flush);
        Ok(())
    }
}

impl AsyncWrite for ScriptSink {
    fn poll_write(mut self: Pin<&mut Self>, cx: &mut Context<'_>, buf: &[u8]) -> Poll<io::Result<usize>> {
        let r = self.do_write(buf, true);
        if r.is_pending() {
            cx.waker().wake_by_ref();
        }
        r
    }
    fn poll_flush(mut self: Pin<&mut Self>, cx: &mut Context<'_>) -> Poll<io::Result<()>> {
        self.calls += 1;
        if self.calls > self.budget {
            panic!("{}: {} calls on the sink", BUDGET_MSG, self.calls);
        }
        let pend = self.flush_script.get(self.fpos).copied().unwrap_or(false);
        self.fpos += 1;
        if pend {
            self.log.push(Event::FlushPending);
            cx.waker().wake_by_ref();
            return Poll::Pending;
        }
        let fail = self.flush_errs.get(self.epos).copied().unwrap_or(self.flush_err_tail);
        self.epos += 1;
        match fail {
            Some(k) => {
                self.log.push(Event::FlushErr(k));
                Poll::Ready(Err(k.into()))
            }
            None => {
                self.log.push(Event::Flush);
                Poll::Ready(Ok(()))
            }
        }
    }
    fn poll_close(self: Pin<&mut Self>, _cx: &mut Context<'_>) -> Poll<io::Result<()>> {
        Poll::Ready(Ok(()))
    }
}

pub struct ScriptSource {
    pub data: Vec<u8>,
    pub at: usize,
    pub script: Vec<ROut>,
    pub tail: ROut,
    pub pos: usize,
    pub calls: usize,
    pub budget: usize,
    pub log: Vec<Event>,
}

impl ScriptSource {
    pub fn new(data: Vec<u8>, script: Vec<ROut>, tail: ROut, budget: usize) -> Self {
        ScriptSource {
            data,
            at: 0,
            script,
            tail,
            pos: 0,
            calls: 0,
            budget,
            log: vec![],
        }
    }
    fn do_read(&mut self, buf: &mut [u8], allow_pending: bool) -> Poll<io::Result<usize>> {
        loop {
            self.calls += 1;
            if self.calls > self.budget {
                panic!("{}: {} calls on the source", BUDGET_MSG, self.calls);
            }
            let o = self.script.get(self.pos).cloned().unwrap_or_else(|| self.tail.clone());
            self.pos += 1;
            match o {
                ROut::Deliver(k) => {
                    let rem = self.data.len() - self.at;
                    if rem == 0 {
                        self.log.push(Event::ReadEof);
                        return Poll::Ready(Ok(0));
                    }
                    let n = k.max(1).min(buf.len()).min(rem);
                    buf[..n].copy_from_slice(&self.data[self.at..self.at + n]);
                    self.at += n;
                    self.log.push(Event::Read {
                        room: buf.len(),
                        delivered: n,
                    });
                    return Poll::Ready(Ok(n));
                }
                ROut::Err(k) => {
                    self.log.push(Event::ReadErr(k));
                    return Poll::Ready(Err(k.into()));
                }
                ROut::Eof => {
                    self.log.push(Event::ReadEof);
                    return Poll::Ready(Ok(0));
                }
                ROut::Pending => {
                    if allow_pending {
                        self.log.push(Event::ReadPending);
                        return Poll::Pending;
                    }
                }
            }
        }
    }
}

impl Read for ScriptSource {
    fn read(&mut self, buf: &mut [u8]) -> io::Result<usize> {
        match self.do_read(buf, false) {
            Poll::Ready(r) => r,
            Poll::Pending => unreachable!(),
        }
    }
}

impl AsyncRead for ScriptSource {
    fn poll_read(mut self: Pin<&mut Self>, cx: &mut Context<'_>, buf: &mut [u8]) -> Poll<io::Result<usize>> {
        let r = self.do_read(buf, true);
        if r.is_pending() {
            cx.waker().wake_by_ref();
        }
        r
    }
}

// ---------------------------------------------------------------------------
// bounded in-memory pipe for the joined async set-up

pub struct PipeState {
    pub cap: usize,
    pub buf: std::collections::VecDeque<u8>,
    pub closed: bool,
    pub read_waker: Option<Waker>,
    pub write_waker: Option<Waker>,
    /// extra scripted behaviour
    pub wscript: Vec<WOut>,
    pub wpos: usize,
    pub rscript: Vec<ROut>,
    pub rpos: usize,
    pub fscript: Vec<bool>,
    pub fpos: usize,
    pub written: Vec<u8>,
    pub log: Vec<Event>,
    pub calls: usize,
    pub budget: usize,
}

#[derive(Clone)]
pub struct PipeEnd(pub Rc<RefCell<PipeState>>);

pub fn pipe(cap: usize, wscript: Vec<WOut>, rscript: Vec<ROut>, fscript: Vec<bool>, budget: usize) -> (PipeEnd, PipeEnd) {
    let st = Rc::new(RefCell::new(PipeState {
        cap: cap.max(1),
        buf: Default::default(),
        closed: false,
        read_waker: None,
        write_waker: None,
        wscript,
        wpos: 0,
        rscript,
        rpos: 0,
        fscript,
        fpos: 0,
        written: vec![],
        log: vec![],
        calls: 0,
        budget,
    }));
    (PipeEnd(st.clone()), PipeEnd(st))
}

impl PipeEnd {
    pub fn close(&self) {
        let mut s = self.0.borrow_mut();
        s.closed = true;
        if let Some(w) = s.read_waker.take() {
            w.wake();
        }
    }
}

fn tick(s: &mut PipeState) {
    s.calls += 1;
    if s.calls > s.budget {
        panic!("{}: {} calls on the pipe", BUDGET_MSG, s.calls);
    }
}

impl AsyncWrite for PipeEnd {
    fn poll_write(self: Pin<&mut Self>, cx: &mut Context<'_>, buf: &[u8]) -> Poll<io::Result<usize>> {
        let mut s = self.0.borrow_mut();
        tick(&mut s);
        let free = s.cap - s.buf.len();
        if free == 0 {
            s.write_waker = Some(cx.waker().clone());
            s.log.push(Event::WritePending);
            return Poll::Pending;
        }
        let o = s.wscript.get(s.wpos).cloned().unwrap_or(WOut::Accept(usize::MAX));
        s.wpos += 1;
        match o {
            WOut::Pending => {
                s.log.push(Event::WritePending);
                cx.waker().wake_by_ref();
                Poll::Pending
            }
            WOut::Accept(k) => {
                let n = k.max(1).min(free).min(buf.len());
                s.buf.extend(&buf[..n]);
                s.written.extend_from_slice(&buf[..n]);
                s.log.push(Event::Write {
                    offered: buf.len(),
                    accepted: n,
                });
                if let Some(w) = s.read_waker.take() {
                    w.wake();
                }
                Poll::Ready(Ok(n))
            }
            WOut::Zero => Poll::Ready(Ok(0)),
            WOut::Err(k) => Poll::Ready(Err(k.into())),
        }
    }
    fn poll_flush(self: Pin<&mut Self>, cx: &mut Context<'_>) -> Poll<io::Result<()>> {
        let mut s = self.0.borrow_mut();
        tick(&mut s);
        let pend = s.fscript.get(s.fpos).copied().unwrap_or(false);
        s.fpos += 1;
        if pend {
            s.log.push(Event::FlushPending);
            cx.waker().wake_by_ref();
            Poll::Pending
        } else {
            s.log.push(Event::Flush);
            Poll::Ready(Ok(()))
        }
    }
    fn poll_close(self: Pin<&mut Self>, _cx: &mut Context<'_>) -> Poll<io::Result<()>> {
        self.close();
        Poll::Ready(Ok(()))
    }
}

impl AsyncRead for PipeEnd {
    fn poll_read(self: Pin<&mut Self>, cx: &mut Context<'_>, buf: &mut [u8]) -> Poll<io::Result<usize>> {
        let mut s = self.0.borrow_mut();
        tick(&mut s);
        if s.buf.is_empty() {
            if s.closed {
                s.log.push(Event::ReadEof);
                return Poll::Ready(Ok(0));
            }
            s.read_waker = Some(cx.waker().clone());
            s.log.push(Event::ReadPending);
            return Poll::Pending;
        }
        let o = s.rscript.get(s.rpos).cloned().unwrap_or(ROut::Deliver(usize::MAX));
        s.rpos += 1;
        match o {
            ROut::Pending => {
                s.log.push(Event::ReadPending);
                cx.waker().wake_by_ref();
                Poll::Pending
            }
            ROut::Deliver(k) => {
                let n = k.max(1).min(buf.len()).min(s.buf.len());
                for b in buf[..n].iter_mut() {
                    *b = s.buf.pop_front().unwrap();
                }
                s.log.push(Event::Read {
                    room: buf.len(),
                    delivered: n,
                });
                if let Some(w) = s.write_waker.take() {
                    w.wake();
                }
                Poll::Ready(Ok(n))
            }
            ROut::Err(k) => Poll::Ready(Err(k.into())),
            ROut::Eof => Poll::Ready(Ok(0)),
        }
    }
}

// ---------------------------------------------------------------------------
// executor

pub struct CountWaker(pub AtomicUsize);
impl Wake for CountWaker {
    fn wake(self: Arc<Self>) {
        self.0.fetch_add(1, Ordering::SeqCst);
    }
    fn wake_by_ref(self: &Arc<Self>) {
        self.0.fetch_add(1, Ordering::SeqCst);
    }
}

/// Poll one future to completion, re-polling whenever it returned Pending
/// (the scripted pipes wake immediately). Returns (output, number of polls) or
/// None if `max_polls` was exceeded.
pub fn run_single<F: Future>(fut: F, max_polls: usize) -> Option<(F::Output, usize)> {
    let cw = Arc::new(CountWaker(AtomicUsize::new(0)));
    let waker = Waker::from(cw.clone());
    let mut cx = Context::from_waker(&waker);
    let mut fut = Box::pin(fut);
    for polls in 1..=max_polls {
        let before = cw.0.load(Ordering::SeqCst);
        match fut.as_mut().poll(&mut cx) {
            Poll::Ready(x) => return Some((x, polls)),
            Poll::Pending => {
                if cw.0.load(Ordering::SeqCst) == before {
                    // Pending without a wake-up: would sleep forever on a real executor
                    return None;
                }
            }
        }
    }
    None
}

pub struct JoinReport {
    pub polls: usize,
    pub switches_inside: usize,
    pub completed: [bool; 2],
    /// both tasks pending and nobody woken
    pub deadlock: bool,
    pub budget_exceeded: bool,
}

/// Run two tasks; `schedule[i]` picks the task to poll next (spurious polls
/// allowed); after the schedule is exhausted: round-robin over woken tasks.
pub fn run_pair(
    mut a: Pin<Box<dyn Future<Output = ()> + '_>>,
    mut b: Pin<Box<dyn Future<Output = ()> + '_>>,
    schedule: &[u8],
    max_polls: usize,
) -> JoinReport {
    let wakers = [Arc::new(CountWaker(AtomicUsize::new(1))), Arc::new(CountWaker(AtomicUsize::new(1)))];
    let mut done = [false, false];
    let mut polls = 0;
    let mut si = 0;
    let mut last = 2usize;
    let mut switches = 0;
    let mut rr = 0usize;
    loop {
        if done[0] && done[1] {
            break;
        }
        if polls >= max_polls {
            return JoinReport {
                polls,
                switches_inside: switches,
                completed: done,
                deadlock: false,
                budget_exceeded: true,
            };
        }
        // choose
        let woken = |i: usize| wakers[i].0.load(Ordering::SeqCst) > 0;
        let pick = if si < schedule.len() {
            let p = (schedule[si] & 1) as usize;
            si += 1;
            if done[p] {
                1 - p
            } else {
                p
            }
        } else {
            // fair: round-robin over woken, unfinished tasks
            let c0 = rr % 2;
            rr += 1;
            if !done[c0] && woken(c0) {
                c0
            } else if !done[1 - c0] && woken(1 - c0) {
                1 - c0
            } else {
                return JoinReport {
                    polls,
                    switches_inside: switches,
                    completed: done,
                    deadlock: true,
                    budget_exceeded: false,
                };
            }
        };
        if done[pick] {
            continue;
        }
        if pick != last && last != 2 {
            switches += 1;
        }
        last = pick;
        wakers[pick].0.store(0, Ordering::SeqCst);
        let waker = Waker::from(wakers[pick].clone());
        let mut cx = Context::from_waker(&waker);
        polls += 1;
        let r = if pick == 0 { a.as_mut().poll(&mut cx) } else { b.as_mut().poll(&mut cx) };
        if r.is_ready() {
            done[pick] = true;
        }
    }
    JoinReport {
        polls,
        switches_inside: switches,
        completed: done,
        deadlock: false,
        budget_exceeded: false,
    }
}
