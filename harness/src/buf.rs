//! Guarded buffers: slices handed to the library are carved out of an mmap'ed
//! arena with PROT_NONE pages on both sides, as flush to a guard page as the
//! requested address offset allows, and surrounded by position-dependent
//! canaries that are compared after the call.

use std::cell::RefCell;

const PAGE: usize = 4096;
/// usable data bytes of the arena
pub const ARENA: usize = 32 * PAGE;
/// canary margin checked on each side of a slice
pub const MARGIN: usize = 96;

struct Arena {
    base: *mut u8, // start of the mapping (first guard page)
}

impl Arena {
    fn new() -> Arena {
        unsafe {
            let total = ARENA + 2 * PAGE;
            let p = libc::mmap(
                std::ptr::null_mut(),
                total,
                libc::PROT_READ | libc::PROT_WRITE,
                libc::MAP_PRIVATE | libc::MAP_ANONYMOUS,
                -1,
                0,
            );
            assert!(p != libc::MAP_FAILED, "harness: mmap failed");
            let p = p as *mut u8;
            assert_eq!(libc::mprotect(p as *mut _, PAGE, libc::PROT_NONE), 0);
            assert_eq!(libc::mprotect(p.add(PAGE + ARENA) as *mut _, PAGE, libc::PROT_NONE), 0);
            Arena { base: p }
        }
    }
    fn lo(&self) -> usize {
        self.base as usize + PAGE
    }
    fn hi(&self) -> usize {
        self.lo() + ARENA
    }
}

thread_local! {
    static ARENAS: RefCell<Vec<Arena>> = RefCell::new(Vec::new());
}

fn canary(addr: usize) -> u8 {
    0xC5 ^ (addr as u8).wrapping_mul(37) ^ ((addr >> 8) as u8)
}

/// A slice inside a guarded arena. Several may be alive at once (each uses its
/// own arena, taken from a per-thread pool).
pub struct Guarded {
    arena: Option<Arena>,
    start: usize,
    len: usize,
    /// [zone_lo, zone_hi) is canary-filled except for the slice itself
    zone_lo: usize,
    zone_hi: usize,
}

impl Guarded {
    /// `misalign`: address of the slice start modulo 16. `flush_left`: put the
    /// start right after the leading guard page instead of the end right
    /// before the trailing one.
    pub fn new(len: usize, misalign: usize, flush_left: bool) -> Guarded {
        Self::new_aligned(len, 16, misalign, flush_left)
    }

    /// Like `new`, but only `start % align == misalign % align` is guaranteed, so the
    /// end of the slice is less than `align` bytes away from the guard page.
    pub fn new_aligned(len: usize, align: usize, misalign: usize, flush_left: bool) -> Guarded {
        assert!(len + 64 <= ARENA, "harness: slice too long for the arena ({})", len);
        assert!(align.is_power_of_two() && align <= 4096);
        let arena = ARENAS.with(|a| a.borrow_mut().pop()).unwrap_or_else(Arena::new);
        let m = misalign % align;
        let start = if flush_left {
            arena.lo() + m
        } else {
            let s = arena.hi() - len;
            // move down until start % align == m
            s - ((s + align - m) % align)
        };
        let zone_lo = start.saturating_sub(MARGIN).max(arena.lo());
        let zone_hi = (start + len + MARGIN).min(arena.hi());
        let g = Guarded {
            arena: Some(arena),
            start,
            len,
            zone_lo,
            zone_hi,
        };
        g.paint();
        g
    }

    fn paint(&self) {
        for a in self.zone_lo..self.zone_hi {
            if a < self.start || a >= self.start + self.len {
                unsafe { *(a as *mut u8) = canary(a) };
            }
        }
    }

    pub fn slice(&mut self) -> &mut [u8] {
        unsafe { std::slice::from_raw_parts_mut(self.start as *mut u8, self.len) }
    }
    pub fn as_ref(&self) -> &[u8] {
        unsafe { std::slice::from_raw_parts(self.start as *const u8, self.len) }
    }
    pub fn fill(&mut self, data: &[u8]) {
        self.slice().copy_from_slice(data);
    }
    pub fn addr(&self) -> usize {
        self.start
    }

    /// Bytes of slack between the slice end and the trailing guard page
    /// (reads in there are not caught by the guard page).
    pub fn gap_after(&self) -> usize {
        self.arena.as_ref().unwrap().hi() - (self.start + self.len)
    }

    /// Compare all canaries; returns the first damaged offset relative to the slice start.
    pub fn check(&self) -> Result<(), String> {
        for a in self.zone_lo..self.zone_hi {
            if a < self.start || a >= self.start + self.len {
                let v = unsafe { *(a as *const u8) };
                if v != canary(a) {
                    return Err(format!(
                        "byte at offset {} relative to the slice (len {}) was overwritten: {:#04x} -> {:#04x}",
                        a as isize - self.start as isize,
                        self.len,
                        canary(a),
                        v
                    ));
                }
            }
        }
        Ok(())
    }

    /// Overwrite everything outside the slice with different bytes (metamorphic
    /// "outside bytes must not matter" re-run).
    pub fn repaint_outside(&mut self, x: u8) {
        for a in self.zone_lo..self.zone_hi {
            if a < self.start || a >= self.start + self.len {
                unsafe { *(a as *mut u8) = canary(a) ^ x };
            }
        }
    }
    pub fn check_repainted(&self, x: u8) -> Result<(), String> {
        for a in self.zone_lo..self.zone_hi {
            if a < self.start || a >= self.start + self.len {
                let v = unsafe { *(a as *const u8) };
                if v != canary(a) ^ x {
                    return Err(format!(
                        "byte at offset {} relative to the slice (len {}) was overwritten",
                        a as isize - self.start as isize,
                        self.len
                    ));
                }
            }
        }
        Ok(())
    }
}

impl Drop for Guarded {
    fn drop(&mut self) {
        if let Some(a) = self.arena.take() {
            ARENAS.with(|p| p.borrow_mut().push(a));
        }
    }
}
