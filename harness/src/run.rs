//! Runner: proptest-driven workers, crash journal, supervisor, replay, evidence.

use crate::desc::Ty;
use crate::glue::DynShape;
use proptest::prelude::*;
use proptest::test_runner::{Config, RngAlgorithm, TestCaseError, TestError, TestRng, TestRunner};
use serde_json::{json, Value as J};
use std::cell::RefCell;
use std::collections::{BTreeMap, BTreeSet, HashSet};
use std::hash::{Hash, Hasher};
use std::io::Write;
use std::panic::{self, AssertUnwindSafe};
use std::path::{Path, PathBuf};
use std::time::Instant;

pub const VERIF: &str = "/verif";

// ---------------------------------------------------------------------------
// panics

thread_local! {
    static LAST_PANIC: RefCell<Option<String>> = RefCell::new(None);
    static LAST_PANIC_RAW: RefCell<String> = RefCell::new(String::new());
}

pub fn install_panic_hook() {
    panic::set_hook(Box::new(|info| {
        let msg = if let Some(s) = info.payload().downcast_ref::<&str>() {
            s.to_string()
        } else if let Some(s) = info.payload().downcast_ref::<String>() {
            s.clone()
        } else {
            "<non-string panic>".to_string()
        };
        let loc = info.location().map(|l| format!("{}:{}", l.file(), l.line())).unwrap_or_default();
        let full = format!("{} at {}", msg, loc);
        let fatal = full.contains("unsafe precondition") || full.contains("misaligned pointer dereference") || full.contains("cannot unwind") || full.contains("null pointer dereference");
        if fatal || std::env::var("VERIF_TRACE_PANICS").is_ok() {
            eprintln!("PANIC: {}", full);
        }
        // kept in a file-less side channel: the last line of stderr of a dying worker
        LAST_PANIC_RAW.with(|p| *p.borrow_mut() = full.clone());
        LAST_PANIC.with(|p| *p.borrow_mut() = Some(full));
    }));
}

/// Run library code; an unwinding panic in it is returned as Err(message).
/// Panics raised by the harness itself (message starts with "harness:") are propagated.
pub fn lib<R>(f: impl FnOnce() -> R) -> Result<R, String> {
    match panic::catch_unwind(AssertUnwindSafe(f)) {
        Ok(r) => Ok(r),
        Err(e) => {
            let msg = LAST_PANIC.with(|p| p.borrow_mut().take()).unwrap_or_else(|| "<panic>".into());
            if msg.starts_with("harness:") || msg.contains("/verif/harness/src/") && !msg.contains("glue.rs") && !msg.contains("shapes.rs") {
                panic::resume_unwind(e);
            }
            Err(msg)
        }
    }
}

// ---------------------------------------------------------------------------
// violations, stats

#[derive(Clone, Debug)]
pub struct Violation {
    pub msg: String,
    /// signature used to match entries of known_findings.json
    pub key: String,
}
pub type CaseResult = Result<(), Violation>;

pub fn violation<T>(key: &str, msg: String) -> Result<T, Violation> {
    Err(Violation {
        msg,
        key: key.to_string(),
    })
}

#[macro_export]
macro_rules! vfail {
    ($key:expr, $($arg:tt)*) => {
        return Err($crate::run::Violation { key: $key.to_string(), msg: format!($($arg)*) })
    };
}

#[derive(Default)]
pub struct Stats {
    pub evaluations: u64,
    pub cases: u64,
    pub labels: BTreeMap<String, u64>,
    pub nontrivial: HashSet<u64>,
    pub samples: Vec<J>,
    pub shapes_seen: BTreeSet<String>,
    pub excluded: BTreeMap<String, u64>,
    pub known_hits: BTreeMap<String, u64>,
    pub exhaustive_parts: Vec<String>,
    nt_events: u64,
}

impl Stats {
    pub fn eval(&mut self, n: u64) {
        self.evaluations += n;
    }
    pub fn label(&mut self, l: &str) {
        *self.labels.entry(l.to_string()).or_insert(0) += 1;
    }
    /// A dedicated probe reproduced the finding with this key (must be listed in known_findings.json).
    pub fn probe_hit(&mut self, key: &str) {
        *self.known_hits.entry(key.to_string()).or_insert(0) += 1;
    }
    pub fn exclude(&mut self, l: &str) {
        *self.excluded.entry(l.to_string()).or_insert(0) += 1;
    }
    /// Register a non-trivial case (distinct by `key`); `sample` renders it for the evidence file.
    pub fn nontrivial<K: Hash>(&mut self, key: K, sample: impl FnOnce() -> J) {
        let mut h = std::collections::hash_map::DefaultHasher::new();
        key.hash(&mut h);
        if self.nontrivial.insert(h.finish()) {
            self.nt_events += 1;
            let n = self.nt_events;
            if self.samples.len() < 6 && (n == 1 || n == 7 || n == 40 || n == 200 || n == 1000 || n == 5000) {
                self.samples.push(sample());
            }
        }
    }
    pub fn to_json(&self) -> J {
        json!({
            "evaluations": self.evaluations,
            "cases": self.cases,
            "labels": self.labels,
            "nontrivial": self.nontrivial.iter().collect::<Vec<_>>(),
            "samples": self.samples,
            "shapes_seen": self.shapes_seen,
            "excluded": self.excluded,
            "known_hits": self.known_hits,
            "exhaustive_parts": self.exhaustive_parts,
        })
    }
}

// ---------------------------------------------------------------------------
// property interface

#[derive(Clone, Copy, PartialEq, Eq, Debug)]
pub enum Tier {
    Quick,
    Thorough,
}
impl Tier {
    pub fn name(self) -> &'static str {
        match self {
            Tier::Quick => "quick",
            Tier::Thorough => "thorough",
        }
    }
}

pub struct PropConfig {
    /// total number of generated cases (split over the shards)
    pub cases: u32,
    pub max_tape: usize,
    pub shards: u32,
}

pub struct Registry {
    pub shapes: Vec<Box<dyn DynShape>>,
}
impl Registry {
    pub fn load() -> Registry {
        Registry {
            shapes: crate::shapes::registry(),
        }
    }
    pub fn by_name(&self, name: &str) -> Option<usize> {
        self.shapes.iter().position(|s| s.ty().short() == name)
    }
}

pub trait Property: Sync {
    fn id(&self) -> &'static str;
    fn level(&self) -> &'static str {
        "exploration"
    }
    fn rule(&self) -> String;
    fn assumptions(&self) -> Vec<String>;
    fn config(&self, tier: Tier) -> PropConfig;
    fn applicable(&self, _ty: &Ty) -> bool {
        true
    }
    fn applicable_shape(&self, sh: &dyn DynShape) -> bool {
        self.applicable(sh.ty())
    }
    /// Deterministic / exhaustive part; `shard` of `nshards` should take its share.
    fn prelude(&self, _reg: &Registry, _shard: u32, _nshards: u32, _tier: Tier, _st: &mut Stats) -> CaseResult {
        Ok(())
    }
    fn run_case(&self, reg: &Registry, shape: usize, tape: &[u8], st: &mut Stats) -> CaseResult;
}

// ---------------------------------------------------------------------------
// journal (MAP_SHARED file, survives SIGSEGV / abort of the worker)

pub struct Journal {
    ptr: *mut u8,
    len: usize,
}
const JLEN: usize = 1 << 17;

impl Journal {
    pub fn create(path: &Path) -> Journal {
        let f = std::fs::OpenOptions::new()
            .read(true)
            .write(true)
            .create(true)
            .truncate(true)
            .open(path)
            .expect("harness: journal create");
        f.set_len(JLEN as u64).unwrap();
        use std::os::unix::io::AsRawFd;
        let p = unsafe {
            libc::mmap(
                std::ptr::null_mut(),
                JLEN,
                libc::PROT_READ | libc::PROT_WRITE,
                libc::MAP_SHARED,
                f.as_raw_fd(),
                0,
            )
        };
        assert!(p != libc::MAP_FAILED, "harness: journal mmap");
        Journal {
            ptr: p as *mut u8,
            len: JLEN,
        }
    }
    /// phase: 0 = idle, 1 = prelude, 2 = case
    pub fn record(&self, phase: u8, shape: u32, tape: &[u8]) {
        let n = tape.len().min(self.len - 16);
        unsafe {
            *self.ptr = 0; // invalidate while writing
            std::ptr::copy_nonoverlapping(&shape as *const u32 as *const u8, self.ptr.add(4), 4);
            let n32 = n as u32;
            std::ptr::copy_nonoverlapping(&n32 as *const u32 as *const u8, self.ptr.add(8), 4);
            std::ptr::copy_nonoverlapping(tape.as_ptr(), self.ptr.add(16), n);
            std::ptr::write_volatile(self.ptr, phase);
        }
    }
    pub fn read(path: &Path) -> Option<(u8, u32, Vec<u8>)> {
        let b = std::fs::read(path).ok()?;
        if b.len() < 16 {
            return None;
        }
        let phase = b[0];
        let shape = u32::from_ne_bytes(b[4..8].try_into().unwrap());
        let n = u32::from_ne_bytes(b[8..12].try_into().unwrap()) as usize;
        Some((phase, shape, b.get(16..16 + n)?.to_vec()))
    }
}

// ---------------------------------------------------------------------------
// known findings

#[derive(Clone, Debug)]
pub struct Finding {
    pub property: String,
    pub status: String,
    pub key: String,
    pub what: String,
}

pub fn load_findings() -> Vec<Finding> {
    let p = Path::new(VERIF).join("known_findings.json");
    let Ok(s) = std::fs::read_to_string(p) else { return vec![] };
    let j: J = serde_json::from_str(&s).expect("harness: known_findings.json is not valid JSON");
    j["findings"]
        .as_array()
        .map(|a| {
            a.iter()
                .map(|f| Finding {
                    property: f["property"].as_str().unwrap_or("").into(),
                    status: f["status"].as_str().unwrap_or("").into(),
                    key: f["key"].as_str().unwrap_or("").into(),
                    what: f["what"].as_str().unwrap_or("").into(),
                })
                .collect()
        })
        .unwrap_or_default()
}

pub fn is_known(findings: &[Finding], prop: &str, key: &str) -> bool {
    findings.iter().any(|f| f.status == "known" && f.property == prop && f.key == key)
}

// ---------------------------------------------------------------------------
// helpers

pub fn hex(b: &[u8]) -> String {
    b.iter().map(|x| format!("{:02x}", x)).collect()
}
pub fn unhex(s: &str) -> Vec<u8> {
    (0..s.len() / 2).map(|i| u8::from_str_radix(&s[2 * i..2 * i + 2], 16).expect("harness: bad hex")).collect()
}

fn seed_bytes(seed: u64, prop: &str, shard: u32) -> [u8; 32] {
    let mut out = [0u8; 32];
    let mut h = std::collections::hash_map::DefaultHasher::new();
    (seed, prop, shard).hash(&mut h);
    let mut x = h.finish();
    for chunk in out.chunks_mut(8) {
        x = x.wrapping_mul(0x9E3779B97F4A7C15).wrapping_add(0x1234_5678_9abc_def1);
        chunk.copy_from_slice(&(x ^ (x >> 29)).to_le_bytes());
    }
    out
}

fn byte_strategy() -> impl Strategy<Value = u8> {
    prop_oneof![
        6 => any::<u8>(),
        2 => 0u8..16,
        1 => Just(0u8),
        1 => Just(255u8),
    ]
}

fn run_dir() -> PathBuf {
    let p = Path::new(VERIF).join(".build").join("run");
    std::fs::create_dir_all(&p).ok();
    p
}

fn applicable_shapes(prop: &dyn Property, reg: &Registry) -> Vec<usize> {
    (0..reg.shapes.len()).filter(|i| prop.applicable_shape(reg.shapes[*i].as_ref())).collect()
}

fn corpus_json() -> J {
    json!({"n": crate::shapes::CORPUS_N, "extra_seed": crate::shapes::EXTRA_SEED, "extra_n": crate::shapes::EXTRA_N})
}

fn build_kind() -> &'static str {
    if cfg!(debug_assertions) {
        "checked"
    } else {
        "plain"
    }
}

pub fn write_replay(prop: &str, reg: &Registry, shape: Option<usize>, tape: &[u8], msg: &str, kind: &str) -> PathBuf {
    let mut h = std::collections::hash_map::DefaultHasher::new();
    (prop, shape.map(|s| reg.shapes[s].ty().short()), tape, kind).hash(&mut h);
    // (tools/mutate.py redirects the replay files of its scratch runs)
    let dir = std::env::var("VERIF_REPLAY_DIR").map(PathBuf::from).unwrap_or_else(|_| Path::new(VERIF).join("replays"));
    std::fs::create_dir_all(&dir).ok();
    let path = dir.join(format!("{}-{:016x}.json", prop, h.finish()));
    let j = json!({
        "property": prop,
        "kind": kind,
        "shape": shape.map(|s| reg.shapes[s].ty().short()),
        "tape": hex(tape),
        "corpus": corpus_json(),
        "build": build_kind(),
        "msg": msg,
    });
    std::fs::write(&path, serde_json::to_string_pretty(&j).unwrap()).expect("harness: write replay");
    path
}

// ---------------------------------------------------------------------------
// worker

pub struct WorkerArgs {
    pub tier: Tier,
    pub seed: u64,
    pub shard: u32,
    pub nshards: u32,
    pub journal: PathBuf,
    pub out: PathBuf,
}

/// Runs one shard. Exit code: 0 ok, 1 violation (details in out file), 3 harness error.
pub fn worker(prop: &dyn Property, a: &WorkerArgs) -> i32 {
    install_panic_hook();
    let reg = Registry::load();
    let findings = load_findings();
    let journal = Journal::create(&a.journal);
    let cfg = prop.config(a.tier);
    let shapes = applicable_shapes(prop, &reg);
    let mut st = Stats::default();
    let mut result = json!({"status": "ok"});
    let mut code = 0;

    // 1. deterministic part
    journal.record(1, 0, &[]);
    let pre = panic::catch_unwind(AssertUnwindSafe(|| prop.prelude(&reg, a.shard, a.nshards, a.tier, &mut st)));
    match pre {
        Ok(Ok(())) => {}
        Ok(Err(v)) => {
            if v.key.starts_with("harness") {
                result = json!({"status": "harness_error", "msg": format!("[{}] {}", v.key, v.msg)});
                code = 3;
            } else if is_known(&findings, prop.id(), &v.key) {
                *st.known_hits.entry(v.key.clone()).or_insert(0) += 1;
            } else {
                let path = write_replay(prop.id(), &reg, None, &[], &v.msg, "prelude");
                result = json!({"status": "violation", "replay": path, "msg": v.msg, "key": v.key});
                code = 1;
            }
        }
        Err(_) => {
            let msg = LAST_PANIC.with(|p| p.borrow_mut().take()).unwrap_or_default();
            result = json!({"status": "harness_error", "msg": msg});
            code = 3;
        }
    }

    // findings reproduced by probes must be listed
    if code == 0 {
        for k in st.known_hits.keys() {
            if !is_known(&findings, prop.id(), k) {
                let path = write_replay(prop.id(), &reg, None, &[], &format!("probe reproduced unlisted finding {}", k), "prelude");
                result = json!({"status": "violation", "replay": path, "msg": format!("probe reproduced a finding that is not listed in known_findings.json: {}", k), "key": k});
                code = 1;
                break;
            }
        }
    }

    // 2. generated cases
    if code == 0 && !shapes.is_empty() && cfg.cases > 0 {
        let my_cases = (cfg.cases / a.nshards).max(1);
        let config = Config {
            cases: my_cases,
            failure_persistence: None,
            max_shrink_iters: 2000,
            max_shrink_time: 0,
            ..Config::default()
        };
        let rng = TestRng::from_seed(RngAlgorithm::ChaCha, &seed_bytes(a.seed, prop.id(), a.shard));
        let mut runner = TestRunner::new_with_rng(config, rng);
        let strat = (0..shapes.len(), proptest::collection::vec(byte_strategy(), 0..=cfg.max_tape));
        let failed = std::cell::Cell::new(false);
        let harness_err: RefCell<Option<String>> = RefCell::new(None);
        let st_cell = RefCell::new(&mut st);
        let res = runner.run(&strat, |(si, tape)| {
            let shape = shapes[si];
            journal.record(2, shape as u32, &tape);
            let mut scratch = Stats::default();
            let mut guard = st_cell.borrow_mut();
            let stats: &mut Stats = if failed.get() { &mut scratch } else { &mut **guard };
            stats.cases += 1;
            let r = panic::catch_unwind(AssertUnwindSafe(|| prop.run_case(&reg, shape, &tape, stats)));
            match r {
                Ok(Ok(())) => Ok(()),
                Ok(Err(v)) => {
                    if v.key.starts_with("harness") {
                        // an inconsistency inside the harness (model vs glue), never a verdict about flatty
                        *harness_err.borrow_mut() = Some(format!("[{}] {}", v.key, v.msg));
                        failed.set(true);
                        Err(TestCaseError::fail(format!("harness inconsistency: {}", v.msg)))
                    } else if is_known(&findings, prop.id(), &v.key) {
                        *stats.known_hits.entry(v.key.clone()).or_insert(0) += 1;
                        Ok(())
                    } else {
                        failed.set(true);
                        Err(TestCaseError::fail(format!("[{}] {}", v.key, v.msg)))
                    }
                }
                Err(_) => {
                    let msg = LAST_PANIC.with(|p| p.borrow_mut().take()).unwrap_or_default();
                    *harness_err.borrow_mut() = Some(msg.clone());
                    failed.set(true);
                    Err(TestCaseError::fail(format!("harness panic: {}", msg)))
                }
            }
        });
        journal.record(0, 0, &[]);
        let herr = harness_err.borrow().clone();
        if let Some(m) = herr {
            result = json!({"status": "harness_error", "msg": m});
            code = 3;
        } else {
            match res {
                Ok(()) => {}
                Err(TestError::Fail(reason, (si, tape))) => {
                    let shape = shapes[si];
                    let path = write_replay(prop.id(), &reg, Some(shape), &tape, &reason.to_string(), "case");
                    result = json!({"status": "violation", "replay": path, "msg": reason.to_string(),
                        "shape": reg.shapes[shape].ty().short()});
                    code = 1;
                }
                Err(TestError::Abort(r)) => {
                    result = json!({"status": "harness_error", "msg": format!("proptest aborted: {}", r)});
                    code = 3;
                }
            }
        }
    }
    journal.record(0, 0, &[]);
    let out = json!({"result": result, "stats": st.to_json()});
    std::fs::write(&a.out, serde_json::to_string(&out).unwrap()).expect("harness: write worker result");
    code
}

/// Re-execute one saved case without proptest. Exit code 0 = passes, 1 = violation reproduced.
pub fn replay(props: &[&dyn Property], file: &Path) -> i32 {
    install_panic_hook();
    let s = std::fs::read_to_string(file).expect("harness: cannot read replay file");
    let j: J = serde_json::from_str(&s).expect("harness: replay file is not JSON");
    let pid = j["property"].as_str().expect("harness: replay without property");
    let prop = props.iter().find(|p| p.id() == pid).expect("harness: unknown property in replay file");
    let reg = Registry::load();
    let mut st = Stats::default();
    let r = if j["kind"] == "prelude" {
        let r = prop.prelude(&reg, 0, 1, Tier::Quick, &mut st);
        let findings = load_findings();
        match r {
            Ok(()) => match st.known_hits.keys().find(|k| !is_known(&findings, pid, k)) {
                Some(k) => Err(Violation {
                    key: k.clone(),
                    msg: format!("probe reproduced a finding that is not listed in known_findings.json: {}", k),
                }),
                None => Ok(()),
            },
            Err(v) if is_known(&findings, pid, &v.key) => Ok(()),
            e => e,
        }
    } else {
        let name = j["shape"].as_str().expect("harness: replay without shape");
        let Some(shape) = reg.by_name(name) else {
            eprintln!("shape {} is not part of this build's corpus (corpus {})", name, j["corpus"]);
            return 2;
        };
        let tape = unhex(j["tape"].as_str().unwrap_or(""));
        prop.run_case(&reg, shape, &tape, &mut st)
    };
    match r {
        Ok(()) => {
            println!("replay {}: property {} holds on this case", file.display(), pid);
            0
        }
        Err(v) => {
            println!("replay {}: [{}] {}", file.display(), v.key, v.msg);
            println!("VIOLATION property={} replay={}", pid, file.display());
            1
        }
    }
}

// ---------------------------------------------------------------------------
// supervisor

pub fn supervise(prop: &dyn Property, tier: Tier, seed: u64) -> i32 {
    let t0 = Instant::now();
    let exe = std::env::current_exe().expect("harness: current_exe");
    let cfg = prop.config(tier);
    let nshards = cfg.shards.max(1);
    let dir = run_dir();
    let mut children = Vec::new();
    for shard in 0..nshards {
        // the supervisor's pid keeps concurrent runs of the same check apart
        let pid = std::process::id();
        let journal = dir.join(format!("{}-{}-{}-{}.journal", prop.id(), tier.name(), pid, shard));
        let out = dir.join(format!("{}-{}-{}-{}.json", prop.id(), tier.name(), pid, shard));
        let _ = std::fs::remove_file(&out);
        let child = std::process::Command::new(&exe)
            .args([
                "worker",
                "--prop",
                prop.id(),
                "--tier",
                tier.name(),
                "--seed",
                &seed.to_string(),
                "--shard",
                &shard.to_string(),
                "--nshards",
                &nshards.to_string(),
                "--journal",
                journal.to_str().unwrap(),
                "--out",
                out.to_str().unwrap(),
            ])
            .stdout(std::process::Stdio::inherit())
            .stderr(std::process::Stdio::piped())
            .spawn()
            .expect("harness: spawn worker");
        children.push((shard, child, journal, out));
    }

    let budget_s: u64 = std::env::var("VERIF_WATCHDOG_S").ok().and_then(|s| s.parse().ok()).unwrap_or(match tier {
        Tier::Quick => 300,
        Tier::Thorough => 5400,
    });

    let mut merged = Stats::default();
    let mut merged_nt: HashSet<u64> = HashSet::new();
    let mut violations: Vec<(String, String)> = Vec::new(); // (replay path, msg)

    // regression tier: previously found failing cases of this property (replays/regress/<ID>-*.json)
    let mut regress_count = 0usize;
    let mut regress_hung: Vec<String> = Vec::new();
    // VERIF_NO_REGRESS=1 (sensitivity experiments only): skip the regression tier, so that a run shows
    // what the generated search finds on its own
    let no_regress = std::env::var("VERIF_NO_REGRESS").map(|v| v == "1").unwrap_or(false);
    if let (false, Ok(rd)) = (no_regress, std::fs::read_dir(Path::new(VERIF).join("replays").join("regress"))) {
        let mut files: Vec<PathBuf> = rd
            .filter_map(|e| e.ok().map(|e| e.path()))
            .filter(|p| p.file_name().and_then(|n| n.to_str()).map(|n| n.starts_with(&format!("{}-", prop.id())) && n.ends_with(".json")).unwrap_or(false))
            .collect();
        files.sort();
        // (up to 120 per property, 16 replay processes at a time)
        let files: Vec<PathBuf> = files.into_iter().take(120).collect();
        for chunk in files.chunks(16) {
            use std::os::unix::process::ExitStatusExt;
            let kids: Vec<_> = chunk
                .iter()
                .map(|f| {
                    std::process::Command::new(&exe)
                        .env("VERIF_SUPERVISED", "1")
                        .args(["replay", "--file", f.to_str().unwrap()])
                        .stdout(std::process::Stdio::null())
                        .stderr(std::process::Stdio::null())
                        .spawn()
                        .expect("harness: spawn replay")
                })
                .collect();
            // a replayed case that does not come back (the tree under test loops) is killed after two minutes
            let deadline = Instant::now() + std::time::Duration::from_secs(120);
            for (f, mut k) in chunk.iter().zip(kids) {
                let st = loop {
                    match k.try_wait().expect("harness: wait replay") {
                        Some(st) => break Some(st),
                        None if Instant::now() > deadline => {
                            let _ = k.kill();
                            let _ = k.wait();
                            break None;
                        }
                        None => std::thread::sleep(std::time::Duration::from_millis(2)),
                    }
                };
                regress_count += 1;
                match st {
                    None => regress_hung.push(f.display().to_string()),
                    Some(st) => {
                        if st.signal().is_some() || st.code() == Some(1) {
                            violations.push((f.display().to_string(), "regression case fails again".into()));
                        }
                    }
                }
            }
        }
    }
    let mut harness_errors = Vec::new();
    let mut inconclusive = Vec::new();
    for f in &regress_hung {
        inconclusive.push(format!("regression case {} did not finish within two minutes (killed)", f));
    }
    let findings = load_findings();

    let scratch: Vec<PathBuf> = children.iter().flat_map(|c| [c.2.clone(), c.3.clone()]).collect();
    for (shard, mut child, journal, out) in children {
        // wait with watchdog
        let mut stderr_pipe = child.stderr.take();
        let stderr_thread = std::thread::spawn(move || {
            let mut s = String::new();
            if let Some(p) = stderr_pipe.as_mut() {
                use std::io::Read;
                let _ = p.read_to_string(&mut s);
            }
            s
        });
        let status = loop {
            match child.try_wait().expect("harness: wait") {
                Some(st) => break Some(st),
                None => {
                    if t0.elapsed().as_secs() > budget_s {
                        let _ = child.kill();
                        let _ = child.wait();
                        break None;
                    }
                    std::thread::sleep(std::time::Duration::from_millis(20));
                }
            }
        };
        let stderr = stderr_thread.join().unwrap_or_default();
        let Some(status) = status else {
            inconclusive.push(format!("shard {}: watchdog ({} s) expired", shard, budget_s));
            continue;
        };
        use std::os::unix::process::ExitStatusExt;
        if let Some(sig) = status.signal() {
            // hard crash: turn the journaled case into a replay file and confirm it
            let reg = Registry::load();
            match Journal::read(&journal) {
                Some((phase, shape, tape)) if phase != 0 => {
                    let tail: String = stderr.lines().rev().take(6).collect::<Vec<_>>().into_iter().rev().collect::<Vec<_>>().join(" | ");
                    let msg = format!("worker died with signal {} ({})", sig, tail);
                    let path = if phase == 1 {
                        write_replay(prop.id(), &reg, None, &[], &msg, "prelude")
                    } else {
                        write_replay(prop.id(), &reg, Some(shape as usize), &tape, &msg, "case")
                    };
                    // confirm
                    let st = std::process::Command::new(&exe)
                        .env("VERIF_SUPERVISED", "1")
                        .args(["replay", "--file", path.to_str().unwrap()])
                        .stdout(std::process::Stdio::null())
                        .stderr(std::process::Stdio::null())
                        .status()
                        .expect("harness: spawn replay");
                    if st.signal().is_some() || st.code() == Some(1) {
                        violations.push((path.display().to_string(), msg));
                    } else {
                        inconclusive.push(format!("shard {}: crash (signal {}) did not reproduce from the journal", shard, sig));
                    }
                }
                _ => inconclusive.push(format!("shard {}: died with signal {} outside a case: {}", shard, sig, stderr)),
            }
            continue;
        }
        let Ok(text) = std::fs::read_to_string(&out) else {
            harness_errors.push(format!("shard {}: no result file (exit {:?}) stderr: {}", shard, status.code(), stderr));
            continue;
        };
        let j: J = serde_json::from_str(&text).expect("harness: worker result JSON");
        let s = &j["stats"];
        merged.evaluations += s["evaluations"].as_u64().unwrap_or(0);
        merged.cases += s["cases"].as_u64().unwrap_or(0);
        for (k, v) in s["labels"].as_object().into_iter().flatten() {
            *merged.labels.entry(k.clone()).or_insert(0) += v.as_u64().unwrap_or(0);
        }
        for (k, v) in s["excluded"].as_object().into_iter().flatten() {
            *merged.excluded.entry(k.clone()).or_insert(0) += v.as_u64().unwrap_or(0);
        }
        for (k, v) in s["known_hits"].as_object().into_iter().flatten() {
            *merged.known_hits.entry(k.clone()).or_insert(0) += v.as_u64().unwrap_or(0);
        }
        for h in s["nontrivial"].as_array().into_iter().flatten() {
            merged_nt.insert(h.as_u64().unwrap_or(0));
        }
        for x in s["samples"].as_array().into_iter().flatten() {
            if merged.samples.len() < 10 {
                merged.samples.push(x.clone());
            }
        }
        for x in s["shapes_seen"].as_array().into_iter().flatten() {
            merged.shapes_seen.insert(x.as_str().unwrap_or("").to_string());
        }
        for x in s["exhaustive_parts"].as_array().into_iter().flatten() {
            let x = x.as_str().unwrap_or("").to_string();
            if !merged.exhaustive_parts.contains(&x) {
                merged.exhaustive_parts.push(x);
            }
        }
        match j["result"]["status"].as_str() {
            Some("ok") => {}
            Some("violation") => {
                let path = j["result"]["replay"].as_str().unwrap_or("").to_string();
                let msg = j["result"]["msg"].as_str().unwrap_or("").to_string();
                // confirm through the plain replay path
                let st = std::process::Command::new(&exe)
                    .env("VERIF_SUPERVISED", "1")
                        .args(["replay", "--file", &path])
                    .stdout(std::process::Stdio::null())
                    .stderr(std::process::Stdio::null())
                    .status()
                    .expect("harness: spawn replay");
                if st.signal().is_some() || st.code() == Some(1) {
                    violations.push((path, msg));
                } else {
                    inconclusive.push(format!("shard {}: failure did not reproduce through replay: {}", shard, msg));
                }
            }
            _ => harness_errors.push(format!("shard {}: {}", shard, j["result"]["msg"])),
        }
    }

    for f in &scratch {
        let _ = std::fs::remove_file(f);
    }
    let wall = t0.elapsed().as_secs_f64();
    // evidence
    let ev = json!({
        "property_id": prop.id(),
        "tier": tier.name(),
        "seed": seed,
        "level": prop.level(),
        "coverage": {
            "evaluations": merged.evaluations,
            "distinct_nontrivial": merged_nt.len(),
            "rule": prop.rule(),
            "samples": merged.samples,
            "cases": merged.cases,
            "classes": merged.labels,
            "shapes_covered": merged.shapes_seen.len(),
            "excluded_known_findings": merged.excluded,
            "known_findings_reproduced": merged.known_hits,
            "exhaustive": false,
            "exhaustive_subspaces": merged.exhaustive_parts,
            "corpus": corpus_json(),
            "build": build_kind(),
            "shards": nshards,
        },
        "assumptions": prop.assumptions(),
        "wall_s": wall,
        "violations": violations.len(),
    });
    let mut ev = ev;
    if let Ok(extra) = std::env::var("VERIF_EVIDENCE_EXTRA") {
        if let Ok(j) = serde_json::from_str::<J>(&extra) {
            ev["coverage"]["other_passes"] = j;
        }
    }
    ev["coverage"]["regression_replays"] = json!(regress_count);
    if !crate::shapes::EXCLUDED.is_empty() {
        ev["coverage"]["corpus_definitions_that_no_longer_compile"] = json!(crate::shapes::EXCLUDED);
    }
    let evdir = Path::new(VERIF).join("evidence");
    std::fs::create_dir_all(&evdir).ok();
    let evpath = evdir.join(format!("{}.json", prop.id()));
    if std::env::var("VERIF_NO_EVIDENCE").is_err() {
        std::fs::write(&evpath, serde_json::to_string_pretty(&ev).unwrap()).expect("harness: write evidence");
    }

    for f in findings.iter().filter(|f| f.status == "known" && f.property == prop.id()) {
        if merged.known_hits.contains_key(&f.key) {
            println!("KNOWN-FINDING: property={} {}", prop.id(), f.what);
        }
    }
    let _ = std::io::stdout().flush();
    if !harness_errors.is_empty() {
        for e in &harness_errors {
            eprintln!("HARNESS ERROR: {}", e);
        }
        return 3;
    }
    if !crate::shapes::EXCLUDED.is_empty() {
        println!(
            "CORPUS-REDUCED: {} generated #[flat] definitions that compile on the pinned tree no longer compile and were left out together with the shapes that use them: {}",
            crate::shapes::EXCLUDED.len(),
            crate::shapes::EXCLUDED.join(", ")
        );
    }
    if !violations.is_empty() {
        for (path, msg) in &violations {
            println!("violation: {}", msg);
            println!("VIOLATION property={} replay={}", prop.id(), path);
        }
        return 1;
    }
    if !inconclusive.is_empty() {
        for e in &inconclusive {
            eprintln!("INCONCLUSIVE: {}", e);
        }
        return 2;
    }
    if !crate::shapes::EXCLUDED.is_empty() {
        eprintln!("HARNESS ERROR: no violation on the reduced corpus, but the check cannot run what it claims (see CORPUS-REDUCED above and .build/build.log)");
        return 3;
    }
    println!(
        "{} {}: held on {} evaluations in {} cases ({} distinct non-trivial), {:.1} s",
        prop.id(),
        tier.name(),
        merged.evaluations,
        merged.cases,
        merged_nt.len(),
        wall
    );
    0
}
