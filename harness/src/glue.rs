//! Glue between the dynamic world of the model (`Ty`, `Value`, `Op`) and the
//! statically typed public API of flatty. Everything here goes through public
//! accessors only.

use crate::desc::*;
use crate::model::Node;
use flatty::{
    emplacer::Emplacer,
    error::Error,
    flex, string,
    traits::{Flat, FlatBase, FlatDefault, FlatSized, FlatUnsized, FlatValidate},
    vec, FlatString, FlatVec, FlatWrap, FlexVec, TrustedRef,
};
use crate::io_glue::{JoinedReport, RecvReport, SendReport};
use crate::pipes::{ROut, ScriptSink, ScriptSource, WOut};
use std::cell::Cell;
use std::marker::PhantomData;

// ---------------------------------------------------------------------------
// recorder

pub struct Recorder {
    base: usize,
    path: Vec<u16>,
    pub nodes: Vec<Node>,
    pub anomalies: Vec<String>,
    quiet: bool,
}

impl Recorder {
    pub fn new(base: usize) -> Self {
        Recorder {
            base,
            path: vec![],
            nodes: vec![],
            anomalies: vec![],
            quiet: false,
        }
    }
    /// Recorder that does not keep nodes (for reading detached values).
    pub fn dummy() -> Self {
        Recorder {
            base: 0,
            path: vec![],
            nodes: vec![],
            anomalies: vec![],
            quiet: true,
        }
    }
    pub fn enter<T: ?Sized>(&mut self, x: &T, cap: Option<usize>) {
        if self.quiet {
            return;
        }
        let addr = x as *const T as *const u8 as usize;
        self.nodes.push(Node {
            path: self.path.clone(),
            off: addr.wrapping_sub(self.base),
            len: std::mem::size_of_val(x),
            cap,
            region: 0,
        });
    }
    pub fn push(&mut self, i: usize) {
        self.path.push(i as u16);
    }
    pub fn pop(&mut self) {
        self.path.pop();
    }
    pub fn anomaly(&mut self, s: String) {
        self.anomalies.push(s);
    }
}

// ---------------------------------------------------------------------------
// routes: which of the equivalent emplacers to use

#[derive(Default)]
pub struct Route {
    bytes: Vec<u8>,
    pos: Cell<usize>,
}
impl Route {
    pub fn new(bytes: &[u8]) -> Self {
        Route {
            bytes: bytes.to_vec(),
            pos: Cell::new(0),
        }
    }
    pub fn next(&self) -> u8 {
        let p = self.pos.get();
        self.pos.set(p + 1);
        // a route made of loose-iterator bytes only stays loose for every further emplacer
        let sticky = !self.bytes.is_empty() && self.bytes.iter().all(|b| *b == 0xF5);
        self.bytes.get(p).copied().unwrap_or(if sticky { 0xF5 } else { 0 })
    }
}

pub struct ValEmplacer<'v, T: Shape + ?Sized> {
    v: &'v Value,
    route: &'v Route,
    _g: PhantomData<fn(&T)>,
}
impl<'v, T: Shape + ?Sized> ValEmplacer<'v, T> {
    pub fn new(v: &'v Value, route: &'v Route) -> Self {
        ValEmplacer {
            v,
            route,
            _g: PhantomData,
        }
    }
}
unsafe impl<'v, T: Shape + ?Sized> Emplacer<T> for ValEmplacer<'v, T> {
    unsafe fn emplace_unchecked(self, bytes: &mut [u8]) -> Result<&mut T, Error> {
        T::emplace_val(self.v, bytes, self.route)
    }
}

// ---------------------------------------------------------------------------
// operations

#[derive(Clone, Debug, PartialEq)]
pub enum Op {
    /// overwrite a sized node by plain assignment
    Set(Value),
    /// `assign_in_place` with the value's emplacer
    Assign(Value, Vec<u8>),
    VPush(Value),
    VPop,
    VPushSlice(Vec<Value>),
    VExtend(Vec<Value>),
    VTruncate(usize),
    VClear,
    VRemove(usize),
    VSwapRemove(usize),
    VResize(usize, Value),
    VSetAt(usize, Value),
    /// overwrite every element through `iter_mut()`
    VIterMutFill(Value),
    SPush(char),
    SPushStr(String),
    SClear,
    SUpper,
    FPush(Value, Vec<u8>),
    FPushDefault,
    FPop,
    FTruncate(usize),
    FClear,
}

#[derive(Clone, Debug, PartialEq)]
pub enum OpOut {
    Done,
    /// the operation reported that it does not fit / is not possible
    Refused,
    /// a flatty error
    Err(String, usize),
    Popped(Option<Value>),
    Removed(Value),
    /// path / operation does not apply to this node
    NA,
}

pub fn err_out(e: Error) -> OpOut {
    OpOut::Err(format!("{:?}", e.kind), e.pos)
}

pub fn sized_op<T: SizedShape>(x: &mut T, op: &Op) -> OpOut {
    match op {
        Op::Set(v) => {
            *x = T::from_val(v);
            OpOut::Done
        }
        Op::Assign(..) => unsized_op(x, op),
        _ => OpOut::NA,
    }
}

pub fn unsized_op<T: Shape + ?Sized>(x: &mut T, op: &Op) -> OpOut {
    match op {
        Op::Assign(v, r) => {
            let route = Route::new(r);
            match x.assign_in_place(ValEmplacer::<T>::new(v, &route)) {
                Ok(_) => OpOut::Done,
                Err(e) => err_out(e),
            }
        }
        _ => OpOut::NA,
    }
}

// ---------------------------------------------------------------------------
// the traits

pub trait Shape: Flat {
    fn ty() -> Ty;
    /// Deep walk through the public accessors.
    fn read(&self, rec: &mut Recorder) -> Value;
    /// Build the real emplacer for `v` and apply it (unchecked entry point, used for nesting).
    unsafe fn emplace_val<'a>(v: &Value, bytes: &'a mut [u8], route: &Route) -> Result<&'a mut Self, Error>;
    /// Navigate with `&mut` accessors and apply one operation.
    fn mutate(&mut self, path: &[u16], op: &Op) -> OpOut;

    const HAS_DEFAULT: bool = false;
    fn default_in_place_dyn(_bytes: &mut [u8]) -> Option<Result<&mut Self, Error>> {
        None
    }
    fn wrap_default_in_place<P: AsRef<[u8]> + AsMut<[u8]> + TrustedRef>(_p: P) -> Option<Result<FlatWrap<Self, P>, Error>> {
        None
    }
    fn flex_push_default<LL: LenShape>(_fv: &mut FlexVec<Self, LL>) -> Option<Result<(), Error>> {
        None
    }
    /// `UninitSendGuard::default_in_place()` (only exists for FlatDefault types; Err gives the guard back)
    #[allow(clippy::type_complexity)]
    fn guard_default<'a, B: flatty_io::WriteBuffer + 'a>(
        g: flatty_io::blocking::UninitSendGuard<'a, Self, B>,
    ) -> Result<Result<flatty_io::blocking::SendGuard<'a, Self, B>, Error>, flatty_io::blocking::UninitSendGuard<'a, Self, B>> {
        Err(g)
    }
    #[allow(clippy::type_complexity)]
    fn async_guard_default<'a, B: flatty_io::AsyncWriteBuffer + 'a>(
        g: flatty_io::async_::UninitSendGuard<'a, Self, B>,
    ) -> Result<Result<flatty_io::async_::SendGuard<'a, Self, B>, Error>, flatty_io::async_::UninitSendGuard<'a, Self, B>> {
        Err(g)
    }
    fn native_size_align() -> Option<(usize, usize)> {
        None
    }
    /// `Default::default()` of a sized type, read back.
    fn native_default() -> Option<Value> {
        None
    }
    fn eq_dyn(&self, _other: &Self) -> Option<bool> {
        None
    }
    fn read_plain(&self) -> Value {
        self.read(&mut Recorder::dummy())
    }
}

pub trait SizedShape: Shape + Sized + Clone + PartialEq {
    fn from_val(v: &Value) -> Self;
}

pub trait LenShape: SizedShape + vec::Length {
    const LEN: LenTy;
}

// ---------------------------------------------------------------------------
// scalars

macro_rules! default_glue {
    () => {
        const HAS_DEFAULT: bool = true;
        fn default_in_place_dyn(bytes: &mut [u8]) -> Option<Result<&mut Self, Error>> {
            Some(<Self as FlatDefault>::default_in_place(bytes))
        }
        fn wrap_default_in_place<P: AsRef<[u8]> + AsMut<[u8]> + TrustedRef>(p: P) -> Option<Result<FlatWrap<Self, P>, Error>> {
            Some(FlatWrap::default_in_place(p))
        }
        fn flex_push_default<LL: LenShape>(fv: &mut FlexVec<Self, LL>) -> Option<Result<(), Error>> {
            Some(fv.push_default().map(|_| ()))
        }
        fn guard_default<'a, B: flatty_io::WriteBuffer + 'a>(
            g: flatty_io::blocking::UninitSendGuard<'a, Self, B>,
        ) -> Result<Result<flatty_io::blocking::SendGuard<'a, Self, B>, Error>, flatty_io::blocking::UninitSendGuard<'a, Self, B>> {
            Ok(g.default_in_place())
        }
        fn async_guard_default<'a, B: flatty_io::AsyncWriteBuffer + 'a>(
            g: flatty_io::async_::UninitSendGuard<'a, Self, B>,
        ) -> Result<Result<flatty_io::async_::SendGuard<'a, Self, B>, Error>, flatty_io::async_::UninitSendGuard<'a, Self, B>> {
            Ok(g.default_in_place())
        }
    };
}

macro_rules! sized_glue {
    () => {
        unsafe fn emplace_val<'a>(v: &Value, bytes: &'a mut [u8], _route: &Route) -> Result<&'a mut Self, Error> {
            <Self as SizedShape>::from_val(v).emplace_unchecked(bytes)
        }
        fn mutate(&mut self, path: &[u16], op: &Op) -> OpOut {
            if path.is_empty() {
                sized_op(self, op)
            } else {
                OpOut::NA
            }
        }
        fn native_size_align() -> Option<(usize, usize)> {
            Some((::core::mem::size_of::<Self>(), ::core::mem::align_of::<Self>()))
        }
        fn native_default() -> Option<Value> {
            Some(<Self as Default>::default().read_plain())
        }
        default_glue!();
    };
}

macro_rules! prim_int {
    ($t:ty, $u:ty, $p:expr) => {
        impl Shape for $t {
            fn ty() -> Ty {
                Ty::Prim($p)
            }
            fn read(&self, rec: &mut Recorder) -> Value {
                rec.enter(self, None);
                Value::Scalar(*self as $u as u128)
            }
            sized_glue!();
        }
        impl SizedShape for $t {
            fn from_val(v: &Value) -> Self {
                v.scalar() as $u as $t
            }
        }
    };
}
prim_int!(u8, u8, Prim::U8);
prim_int!(u16, u16, Prim::U16);
prim_int!(u32, u32, Prim::U32);
prim_int!(u64, u64, Prim::U64);
prim_int!(u128, u128, Prim::U128);
prim_int!(usize, usize, Prim::Usize);
prim_int!(i8, u8, Prim::I8);
prim_int!(i16, u16, Prim::I16);
prim_int!(i32, u32, Prim::I32);
prim_int!(i64, u64, Prim::I64);
prim_int!(i128, u128, Prim::I128);
prim_int!(isize, usize, Prim::Isize);

macro_rules! prim_float {
    ($t:ty, $u:ty, $p:expr) => {
        impl Shape for $t {
            fn ty() -> Ty {
                Ty::Prim($p)
            }
            fn read(&self, rec: &mut Recorder) -> Value {
                rec.enter(self, None);
                Value::Scalar(self.to_bits() as u128)
            }
            sized_glue!();
        }
        impl SizedShape for $t {
            fn from_val(v: &Value) -> Self {
                <$t>::from_bits(v.scalar() as $u)
            }
        }
    };
}
prim_float!(f32, u32, Prim::F32);
prim_float!(f64, u64, Prim::F64);

macro_rules! len_shape {
    ($t:ty, $l:expr) => {
        impl LenShape for $t {
            const LEN: LenTy = $l;
        }
    };
}
len_shape!(u8, LenTy::U8);
len_shape!(u16, LenTy::U16);
len_shape!(u32, LenTy::U32);
len_shape!(u64, LenTy::U64);
len_shape!(usize, LenTy::Usize);

impl Shape for () {
    fn ty() -> Ty {
        Ty::Unit
    }
    fn read(&self, rec: &mut Recorder) -> Value {
        rec.enter(self, None);
        Value::Unit
    }
    sized_glue!();
}
impl SizedShape for () {
    fn from_val(_: &Value) -> Self {}
}

use flatty::portable::{be, le, Bool};

impl Shape for Bool {
    fn ty() -> Ty {
        Ty::Bool
    }
    fn read(&self, rec: &mut Recorder) -> Value {
        rec.enter(self, None);
        Value::Bool(bool::from(*self))
    }
    sized_glue!();
}
impl SizedShape for Bool {
    fn from_val(v: &Value) -> Self {
        Bool::from(v.scalar() != 0)
    }
}

macro_rules! pint {
    ($t:ty, $n:ty, $u:ty, $size:expr, $be:expr, $signed:expr) => {
        impl Shape for $t {
            fn ty() -> Ty {
                Ty::PInt {
                    size: $size,
                    be: $be,
                    signed: $signed,
                }
            }
            fn read(&self, rec: &mut Recorder) -> Value {
                rec.enter(self, None);
                Value::Scalar(<$n>::from(*self) as $u as u128)
            }
            sized_glue!();
        }
        impl SizedShape for $t {
            fn from_val(v: &Value) -> Self {
                <$t>::from(v.scalar() as $u as $n)
            }
        }
    };
}
pint!(le::U16, u16, u16, 2, false, false);
pint!(le::U32, u32, u32, 4, false, false);
pint!(le::U64, u64, u64, 8, false, false);
pint!(le::I16, i16, u16, 2, false, true);
pint!(le::I32, i32, u32, 4, false, true);
pint!(le::I64, i64, u64, 8, false, true);
pint!(be::U16, u16, u16, 2, true, false);
pint!(be::U32, u32, u32, 4, true, false);
pint!(be::U64, u64, u64, 8, true, false);
pint!(be::I16, i16, u16, 2, true, true);
pint!(be::I32, i32, u32, 4, true, true);
pint!(be::I64, i64, u64, 8, true, true);
len_shape!(le::U16, LenTy::LeU16);
len_shape!(le::U32, LenTy::LeU32);
len_shape!(le::U64, LenTy::LeU64);
len_shape!(be::U16, LenTy::BeU16);
len_shape!(be::U32, LenTy::BeU32);
len_shape!(be::U64, LenTy::BeU64);

macro_rules! pfloat {
    ($t:ty, $n:ty, $u:ty, $size:expr, $be:expr) => {
        impl Shape for $t {
            fn ty() -> Ty {
                Ty::PFloat { size: $size, be: $be }
            }
            fn read(&self, rec: &mut Recorder) -> Value {
                rec.enter(self, None);
                Value::Scalar(<$n>::from(*self).to_bits() as u128)
            }
            sized_glue!();
        }
        impl SizedShape for $t {
            fn from_val(v: &Value) -> Self {
                <$t>::from(<$n>::from_bits(v.scalar() as $u))
            }
        }
    };
}
pfloat!(le::F32, f32, u32, 4, false);
pfloat!(le::F64, f64, u64, 8, false);
pfloat!(be::F32, f32, u32, 4, true);
pfloat!(be::F64, f64, u64, 8, true);

// ---------------------------------------------------------------------------
// arrays

impl<T: SizedShape, const N: usize> Shape for [T; N] {
    fn ty() -> Ty {
        Ty::Array(Box::new(T::ty()), N)
    }
    fn read(&self, rec: &mut Recorder) -> Value {
        rec.enter(self, None);
        let mut xs = Vec::with_capacity(N);
        for (i, x) in self.iter().enumerate() {
            rec.push(i);
            xs.push(x.read(rec));
            rec.pop();
        }
        Value::Array(xs)
    }
    unsafe fn emplace_val<'a>(v: &Value, bytes: &'a mut [u8], _route: &Route) -> Result<&'a mut Self, Error> {
        <Self as SizedShape>::from_val(v).emplace_unchecked(bytes)
    }
    fn mutate(&mut self, path: &[u16], op: &Op) -> OpOut {
        match path.split_first() {
            None => sized_op(self, op),
            Some((i, rest)) => match self.get_mut(*i as usize) {
                Some(x) => x.mutate(rest, op),
                None => OpOut::NA,
            },
        }
    }
    fn native_size_align() -> Option<(usize, usize)> {
        Some((::core::mem::size_of::<Self>(), ::core::mem::align_of::<Self>()))
    }
}
impl<T: SizedShape, const N: usize> SizedShape for [T; N] {
    fn from_val(v: &Value) -> Self {
        let xs = v.items();
        assert_eq!(xs.len(), N, "harness: array length");
        std::array::from_fn(|i| T::from_val(&xs[i]))
    }
}

// ---------------------------------------------------------------------------
// FlatVec

fn vals<T: SizedShape>(xs: &[Value]) -> Vec<T> {
    xs.iter().map(T::from_val).collect()
}

impl<T: SizedShape, L: LenShape> Shape for FlatVec<T, L> {
    fn ty() -> Ty {
        Ty::FlatVec(Box::new(T::ty()), L::LEN)
    }
    fn read(&self, rec: &mut Recorder) -> Value {
        rec.enter(self, Some(self.capacity()));
        let n = self.len();
        let sl = self.as_slice();
        if sl.len() != n {
            rec.anomaly(format!("FlatVec: len() = {} but as_slice().len() = {}", n, sl.len()));
        }
        if self.iter().count() != n {
            rec.anomaly("FlatVec: iter().count() != len()".into());
        }
        if self.remaining() != self.capacity().wrapping_sub(n) {
            rec.anomaly("FlatVec: remaining() != capacity() - len()".into());
        }
        if self.is_empty() != (n == 0) {
            rec.anomaly("FlatVec: is_empty() inconsistent".into());
        }
        if n <= self.capacity() && self.is_full() != (n == self.capacity()) {
            rec.anomaly("FlatVec: is_full() inconsistent".into());
        }
        if self.free_space_as_slice().len() != self.capacity().wrapping_sub(n) {
            rec.anomaly("FlatVec: free_space_as_slice().len() != capacity() - len()".into());
        }
        let mut xs = Vec::with_capacity(n.min(1 << 16));
        for (i, x) in sl.iter().enumerate() {
            rec.push(i);
            xs.push(x.read(rec));
            rec.pop();
        }
        Value::Vec(xs)
    }
    unsafe fn emplace_val<'a>(v: &Value, bytes: &'a mut [u8], route: &Route) -> Result<&'a mut Self, Error> {
        let xs = v.items();
        let r = route.next();
        let special = r == 0xF3 || r == 0xF5 || r == 0xF7;
        if xs.is_empty() && r % 3 == 1 {
            return vec::Empty.emplace_unchecked(bytes);
        }
        if !special && r % 6 == 5 && xs.len() <= 4 {
            // the documented literal syntax (flat_vec! expands to vec::FromArray)
            let x = |i: usize| T::from_val(&xs[i]);
            return match xs.len() {
                0 => <_ as Emplacer<Self>>::emplace_unchecked(flatty::flat_vec![], bytes),
                1 => <_ as Emplacer<Self>>::emplace_unchecked(flatty::flat_vec![x(0)], bytes),
                2 => <_ as Emplacer<Self>>::emplace_unchecked(flatty::flat_vec![x(0), x(1),], bytes),
                3 => <_ as Emplacer<Self>>::emplace_unchecked(flatty::flat_vec![x(0), x(1), x(2)], bytes),
                _ => <_ as Emplacer<Self>>::emplace_unchecked(flatty::flat_vec![x(0), x(1), x(2), x(3)], bytes),
            };
        }
        // (256 / 257 elements: one more than a u8 length type can count, with enough bytes for all of them)
        if !special && r % 3 == 2 && (xs.len() <= 6 || xs.len() == 256 || xs.len() == 257) {
            macro_rules! arr {
                ($($n:literal),*) => {
                    match xs.len() {
                        $($n => {
                            let a: [T; $n] = std::array::from_fn(|i| T::from_val(&xs[i]));
                            return vec::FromArray(a).emplace_unchecked(bytes);
                        })*
                        _ => {}
                    }
                };
            }
            arr!(0, 1, 2, 3, 4, 5, 6, 256, 257);
        }
        if r == 0xF3 {
            // an iterator that claims an exact length of len + 2 but yields len items (size_hint is advisory; unsafe
            // code must not trust it). Only where the claimed length fits as well, so that the emplacer's own
            // capacity pre-check cannot refuse content that fits.
            let n = xs.len();
            let al = std::cmp::max(std::mem::align_of::<L>(), std::mem::align_of::<T>());
            let room = bytes.len().saturating_sub(std::cmp::max(std::mem::size_of::<L>(), std::mem::align_of::<T>())) / al * al;
            let fits = std::mem::size_of::<T>() != 0 && room / std::mem::size_of::<T>() >= n + 2 && (n as u128 + 2) <= <L as LenShape>::LEN.max();
            if fits {
                struct Lying<I>(I, usize);
                impl<I: Iterator> Iterator for Lying<I> {
                    type Item = I::Item;
                    fn next(&mut self) -> Option<I::Item> {
                        self.0.next()
                    }
                    fn size_hint(&self) -> (usize, Option<usize>) {
                        (self.1, Some(self.1))
                    }
                }
                return vec::FromIterator(Lying(xs.iter().map(T::from_val), n + 2)).emplace_unchecked(bytes);
            }
        }
        if r == 0xF5 {
            // an iterator whose size_hint is loose: (0, Some(len + 3)), yields exactly len items
            let n = xs.len();
            return vec::FromIterator((0..n + 3).filter(move |i| *i < n).map(|i| T::from_val(&xs[i]))).emplace_unchecked(bytes);
        }
        if r == 0xF7 {
            // reserved route: an iterator that does not know its length (size_hint().0 == 0)
            return vec::FromIterator(xs.iter().map(T::from_val).filter(|_| true)).emplace_unchecked(bytes);
        }
        vec::FromIterator(xs.iter().map(T::from_val)).emplace_unchecked(bytes)
    }
    fn mutate(&mut self, path: &[u16], op: &Op) -> OpOut {
        if let Some((i, rest)) = path.split_first() {
            return match self.as_mut_slice().get_mut(*i as usize) {
                Some(x) => x.mutate(rest, op),
                None => OpOut::NA,
            };
        }
        match op {
            Op::VPush(v) => match self.push(T::from_val(v)) {
                Ok(()) => OpOut::Done,
                Err(_) => OpOut::Refused,
            },
            Op::VPop => OpOut::Popped(self.pop().map(|x| x.read_plain())),
            Op::VPushSlice(vs) => match self.push_slice(&vals::<T>(vs)) {
                Ok(()) => OpOut::Done,
                Err(_) => OpOut::Refused,
            },
            Op::VExtend(vs) => {
                self.extend_until_full(vs.iter().map(T::from_val));
                OpOut::Done
            }
            Op::VTruncate(n) => {
                self.truncate(*n);
                OpOut::Done
            }
            Op::VClear => {
                self.clear();
                OpOut::Done
            }
            Op::VRemove(i) => OpOut::Removed(self.remove(*i).read_plain()),
            Op::VSwapRemove(i) => OpOut::Removed(self.swap_remove(*i).read_plain()),
            Op::VResize(n, v) => {
                self.resize(*n, T::from_val(v));
                OpOut::Done
            }
            Op::VSetAt(i, v) => {
                self[*i] = T::from_val(v);
                OpOut::Done
            }
            Op::VIterMutFill(v) => {
                for x in self.iter_mut() {
                    *x = T::from_val(v);
                }
                OpOut::Done
            }
            Op::Assign(..) => unsized_op(self, op),
            _ => OpOut::NA,
        }
    }
    default_glue!();
    fn eq_dyn(&self, other: &Self) -> Option<bool> {
        let e = self == other;
        let ne = self != other;
        if e == ne {
            return None;
        }
        Some(e)
    }
}

// ---------------------------------------------------------------------------
// FlatString

impl<L: LenShape> Shape for FlatString<L> {
    fn ty() -> Ty {
        Ty::FlatString(L::LEN)
    }
    fn read(&self, rec: &mut Recorder) -> Value {
        rec.enter(self, Some(self.capacity()));
        let n = self.len();
        let s = self.as_str();
        if s.len() != n {
            rec.anomaly(format!("FlatString: len() = {} but as_str().len() = {}", n, s.len()));
        }
        if self.remaining() != self.capacity().wrapping_sub(n) {
            rec.anomaly("FlatString: remaining() != capacity() - len()".into());
        }
        if std::str::from_utf8(s.as_bytes()).is_err() {
            rec.anomaly("FlatString: as_str() is not UTF-8".into());
        }
        Value::Str(String::from_utf8_lossy(s.as_bytes()).into_owned())
    }
    unsafe fn emplace_val<'a>(v: &Value, bytes: &'a mut [u8], route: &Route) -> Result<&'a mut Self, Error> {
        let s = v.as_str();
        let r = route.next();
        if r == 0xF3 {
            // a source whose first as_ref() answers "" and every later one the text (AsRef is a safe trait: the
            // emplacer may fail on it, but must not trust a check made on an earlier answer)
            struct Flaky<'s>(&'s str, Cell<u32>);
            impl AsRef<str> for Flaky<'_> {
                fn as_ref(&self) -> &str {
                    let k = self.1.get();
                    self.1.set(k + 1);
                    if k == 0 {
                        ""
                    } else {
                        self.0
                    }
                }
            }
            return string::FromStr(Flaky(s, Cell::new(0))).emplace_unchecked(bytes);
        }
        if s.is_empty() && r % 2 == 1 {
            return string::Empty.emplace_unchecked(bytes);
        }
        if r % 4 == 2 {
            return string::FromStr(s.to_string()).emplace_unchecked(bytes);
        }
        string::FromStr(s).emplace_unchecked(bytes)
    }
    fn mutate(&mut self, path: &[u16], op: &Op) -> OpOut {
        if !path.is_empty() {
            return OpOut::NA;
        }
        match op {
            Op::SPush(c) => match self.push(*c) {
                Ok(()) => OpOut::Done,
                Err(_) => OpOut::Refused,
            },
            Op::SPushStr(s) => match self.push_str(s) {
                Ok(()) => OpOut::Done,
                Err(_) => OpOut::Refused,
            },
            Op::SClear => {
                self.clear();
                OpOut::Done
            }
            Op::SUpper => {
                self.as_mut_str().make_ascii_uppercase();
                OpOut::Done
            }
            Op::Assign(..) => unsized_op(self, op),
            _ => OpOut::NA,
        }
    }
    default_glue!();
    fn eq_dyn(&self, other: &Self) -> Option<bool> {
        let e = self == other;
        let ne = self != other;
        if e == ne {
            return None;
        }
        Some(e)
    }
}

// ---------------------------------------------------------------------------
// FlexVec

impl<T: Shape + ?Sized, L: LenShape> Shape for FlexVec<T, L> {
    fn ty() -> Ty {
        Ty::FlexVec(Box::new(T::ty()), L::LEN)
    }
    fn read(&self, rec: &mut Recorder) -> Value {
        rec.enter(self, None);
        let mut xs = Vec::new();
        for (i, x) in self.iter().enumerate() {
            rec.push(i);
            xs.push(x.read(rec));
            rec.pop();
        }
        let n = self.len();
        if n != xs.len() {
            rec.anomaly(format!("FlexVec: len() = {} but iter() yields {}", n, xs.len()));
        }
        if self.is_empty() != xs.is_empty() {
            rec.anomaly("FlexVec: is_empty() inconsistent".into());
        }
        Value::Flex(xs)
    }
    unsafe fn emplace_val<'a>(v: &Value, bytes: &'a mut [u8], route: &Route) -> Result<&'a mut Self, Error> {
        let xs = v.items();
        let r = route.next();
        if xs.is_empty() && r % 2 == 1 {
            return flex::Empty.emplace_unchecked(bytes);
        }
        flex::FromIterator::new(xs.iter().map(|x| ValEmplacer::<T>::new(x, route))).emplace_unchecked(bytes)
    }
    fn mutate(&mut self, path: &[u16], op: &Op) -> OpOut {
        if let Some((i, rest)) = path.split_first() {
            return match self.iter_mut().nth(*i as usize) {
                Some(x) => x.mutate(rest, op),
                None => OpOut::NA,
            };
        }
        match op {
            Op::FPush(v, r) => {
                let route = Route::new(r);
                match self.push(ValEmplacer::<T>::new(v, &route)) {
                    Ok(_) => OpOut::Done,
                    Err(e) => err_out(e),
                }
            }
            Op::FPushDefault => match T::flex_push_default(self) {
                Some(Ok(())) => OpOut::Done,
                Some(Err(e)) => err_out(e),
                None => OpOut::NA,
            },
            Op::FPop => match self.pop() {
                Ok(()) => OpOut::Done,
                Err(_) => OpOut::Refused,
            },
            Op::FTruncate(n) => {
                self.truncate(*n);
                OpOut::Done
            }
            Op::FClear => {
                self.clear();
                OpOut::Done
            }
            Op::Assign(..) => unsized_op(self, op),
            _ => OpOut::NA,
        }
    }
    default_glue!();
}

// ---------------------------------------------------------------------------
// object-safe facade

#[derive(Clone, Debug, PartialEq)]
pub struct FErr {
    pub kind: String,
    pub pos: usize,
}
impl From<Error> for FErr {
    fn from(e: Error) -> Self {
        FErr {
            kind: format!("{:?}", e.kind),
            pos: e.pos,
        }
    }
}

#[derive(Clone, Debug)]
pub struct ReadOut {
    pub value: Value,
    pub nodes: Vec<Node>,
    pub anomalies: Vec<String>,
    pub size: usize,
    /// as_bytes(): offset from the buffer start and length
    pub bytes_off: usize,
    pub bytes_len: usize,
    pub size_of_val: usize,
    pub align_of_val: usize,
}

#[derive(Clone, Debug)]
pub struct Consts {
    pub align: usize,
    pub min_size: usize,
    /// (size_of, align_of) for sized types
    pub native: Option<(usize, usize)>,
    pub has_default: bool,
    pub native_default: Option<Value>,
}

pub trait Live {
    fn read(&self) -> ReadOut;
    fn mutate(&mut self, path: &[u16], op: &Op) -> OpOut;
    fn size(&self) -> usize;
    /// `other` must be a valid image of the same type (checked with from_bytes).
    fn eq_bytes(&self, other: &[u8]) -> Option<bool>;
    /// the value compared with itself, and with a second view mapped from its own bytes
    fn eq_self(&self) -> Option<(bool, bool)>;
    /// validate(as_bytes())
    fn revalidate(&self) -> Result<(), FErr>;
}

struct LiveRef<'a, T: Shape + ?Sized> {
    x: &'a mut T,
    base: usize,
}

fn read_out<T: Shape + ?Sized>(x: &T, base: usize) -> ReadOut {
    let mut rec = Recorder::new(base);
    let value = x.read(&mut rec);
    let ab = x.as_bytes();
    ReadOut {
        value,
        nodes: rec.nodes,
        anomalies: rec.anomalies,
        size: x.size(),
        bytes_off: (ab.as_ptr() as usize).wrapping_sub(base),
        bytes_len: ab.len(),
        size_of_val: std::mem::size_of_val(x),
        align_of_val: std::mem::align_of_val(x),
    }
}

impl<'a, T: Shape + ?Sized> Live for LiveRef<'a, T> {
    fn read(&self) -> ReadOut {
        read_out(&*self.x, self.base)
    }
    fn mutate(&mut self, path: &[u16], op: &Op) -> OpOut {
        self.x.mutate(path, op)
    }
    fn size(&self) -> usize {
        self.x.size()
    }
    fn eq_bytes(&self, other: &[u8]) -> Option<bool> {
        let o = T::from_bytes(other).ok()?;
        self.x.eq_dyn(o)
    }
    fn eq_self(&self) -> Option<(bool, bool)> {
        let a = self.x.eq_dyn(&*self.x)?;
        // a second view of the very same memory
        let bytes = self.x.as_bytes();
        let view = unsafe { T::from_bytes_unchecked(std::slice::from_raw_parts(bytes.as_ptr(), bytes.len())) };
        let b = self.x.eq_dyn(view)?;
        Some((a, b))
    }
    fn revalidate(&self) -> Result<(), FErr> {
        T::validate(self.x.as_bytes()).map_err(FErr::from)
    }
}

pub type Session<'s> = &'s mut dyn FnMut(&mut dyn Live);

pub trait DynShape: Sync + Send {
    fn ty(&self) -> &Ty;
    /// are the flatty-io drivers instantiated for this shape?
    fn is_message_shape(&self) -> bool {
        false
    }
    fn consts(&self) -> Consts;
    fn validate(&self, b: &[u8]) -> Result<(), FErr>;
    fn from_bytes(&self, b: &[u8]) -> Result<ReadOut, FErr>;
    fn from_mut_bytes(&self, b: &mut [u8]) -> Result<ReadOut, FErr>;
    fn from_wrapped_bytes(&self, b: &[u8]) -> Result<ReadOut, FErr>;
    /// verdict of FlatWrap::from_wrapped_bytes only
    fn wrapped_only(&self, b: &[u8]) -> Result<(), FErr>;
    /// from_bytes / from_mut_bytes without touching the result (verdict only)
    fn from_bytes_only(&self, b: &[u8]) -> Result<(), FErr>;
    /// Map and report where the mapped reference lies: (size_of_val, as_bytes().len(), offset of as_bytes() from the
    /// start of `b`); every byte of as_bytes() is read.
    fn from_bytes_extent(&self, b: &[u8]) -> Result<(usize, usize, isize), FErr>;
    fn from_mut_bytes_only(&self, b: &mut [u8]) -> Result<(), FErr>;
    /// `T::new_in_place(bytes, emplacer(v))`, then run the session on the result.
    fn new_in_place(&self, b: &mut [u8], v: &Value, route: &[u8], f: Session) -> Result<(), FErr>;
    fn default_in_place(&self, b: &mut [u8], f: Session) -> Option<Result<(), FErr>>;
    /// `T::from_mut_bytes(bytes)`, then run the session.
    fn map_mut(&self, b: &mut [u8], f: Session) -> Result<(), FErr>;
    /// FlatWrap::new_in_place over `&mut [u8]` (kind 0), `Vec<u8>` (1, align 1 only), `AlignedBytes` (2).
    /// For kinds 1/2 a fresh buffer of `b.len()` bytes is allocated and the result copied back.
    fn wrap_new_in_place(&self, kind: u8, b: &mut [u8], v: Option<&Value>, route: &[u8]) -> Option<Result<ReadOut, FErr>>;

    // ---- flatty-io drivers (see io_glue.rs)
    fn io_send_blocking(&self, msgs: &[Value], routes: &[u8], max_msg_len: usize, sink: &mut ScriptSink, keep_going: bool) -> SendReport;
    fn io_recv_blocking(&self, source: &mut ScriptSource, max_msg_len: usize, max_events: usize, retries: usize) -> RecvReport;
    fn io_async_send(&self, msgs: &[Value], routes: &[u8], max_msg_len: usize, sink: &mut ScriptSink, max_polls: usize, keep_going: bool) -> SendReport;
    fn io_async_recv(&self, source: &mut ScriptSource, max_msg_len: usize, max_events: usize, retries: usize, max_polls: usize) -> RecvReport;
    #[allow(clippy::too_many_arguments)]
    fn io_async_joined(
        &self,
        msgs: &[Value],
        routes: &[u8],
        max_msg_len: usize,
        cap: usize,
        wscript: Vec<WOut>,
        rscript: Vec<ROut>,
        fscript: Vec<bool>,
        schedule: &[u8],
        max_polls: usize,
    ) -> JoinedReport;
}

struct Of<T: Shape + ?Sized> {
    ty: Ty,
    _g: PhantomData<fn(&T)>,
}

pub fn entry<T: Shape + ?Sized + 'static>() -> Box<dyn DynShape> {
    Box::new(Of::<T> {
        ty: T::ty(),
        _g: PhantomData,
    })
}

impl<T: Shape + ?Sized> DynShape for Of<T> {
    fn ty(&self) -> &Ty {
        &self.ty
    }
    fn consts(&self) -> Consts {
        Consts {
            align: T::ALIGN,
            min_size: T::MIN_SIZE,
            native: T::native_size_align(),
            has_default: T::HAS_DEFAULT,
            native_default: T::native_default(),
        }
    }
    fn validate(&self, b: &[u8]) -> Result<(), FErr> {
        T::validate(b).map_err(FErr::from)
    }
    fn from_bytes(&self, b: &[u8]) -> Result<ReadOut, FErr> {
        let x = T::from_bytes(b)?;
        Ok(read_out(x, b.as_ptr() as usize))
    }
    fn from_mut_bytes(&self, b: &mut [u8]) -> Result<ReadOut, FErr> {
        let base = b.as_ptr() as usize;
        let x = T::from_mut_bytes(b)?;
        Ok(read_out(x, base))
    }
    fn from_bytes_only(&self, b: &[u8]) -> Result<(), FErr> {
        T::from_bytes(b).map(|_| ()).map_err(FErr::from)
    }
    fn from_bytes_extent(&self, b: &[u8]) -> Result<(usize, usize, isize), FErr> {
        let r = T::from_bytes(b)?;
        let ab = flatty::traits::FlatUnsized::as_bytes(r);
        let sum = ab.iter().fold(0u8, |a, x| a.wrapping_add(*x));
        std::hint::black_box(sum);
        Ok((std::mem::size_of_val(r), ab.len(), ab.as_ptr() as isize - b.as_ptr() as isize))
    }
    fn from_mut_bytes_only(&self, b: &mut [u8]) -> Result<(), FErr> {
        T::from_mut_bytes(b).map(|_| ()).map_err(FErr::from)
    }
    fn from_wrapped_bytes(&self, b: &[u8]) -> Result<ReadOut, FErr> {
        let w = FlatWrap::<T, &[u8]>::from_wrapped_bytes(b)?;
        Ok(read_out(&*w, b.as_ptr() as usize))
    }
    fn wrapped_only(&self, b: &[u8]) -> Result<(), FErr> {
        FlatWrap::<T, &[u8]>::from_wrapped_bytes(b).map(|_| ()).map_err(FErr::from)
    }
    fn new_in_place(&self, b: &mut [u8], v: &Value, route: &[u8], f: Session) -> Result<(), FErr> {
        let base = b.as_ptr() as usize;
        let route = Route::new(route);
        let x = T::new_in_place(b, ValEmplacer::<T>::new(v, &route))?;
        f(&mut LiveRef { x, base });
        Ok(())
    }
    fn default_in_place(&self, b: &mut [u8], f: Session) -> Option<Result<(), FErr>> {
        let base = b.as_ptr() as usize;
        match T::default_in_place_dyn(b)? {
            Ok(x) => {
                f(&mut LiveRef { x, base });
                Some(Ok(()))
            }
            Err(e) => Some(Err(e.into())),
        }
    }
    fn map_mut(&self, b: &mut [u8], f: Session) -> Result<(), FErr> {
        let base = b.as_ptr() as usize;
        let x = T::from_mut_bytes(b)?;
        f(&mut LiveRef { x, base });
        Ok(())
    }
    fn wrap_new_in_place(&self, kind: u8, b: &mut [u8], v: Option<&Value>, route: &[u8]) -> Option<Result<ReadOut, FErr>> {
        let route = Route::new(route);
        if v.is_none() && !T::HAS_DEFAULT {
            return None;
        }
        macro_rules! go {
            ($ptr:expr, $get:expr) => {{
                let res = match v {
                    Some(v) => FlatWrap::<T, _>::new_in_place($ptr, ValEmplacer::<T>::new(v, &route)),
                    None => T::wrap_default_in_place($ptr).unwrap(),
                };
                match res {
                    Ok(w) => {
                        let out = {
                            let r: &T = &*w;
                            let base = $get(&w);
                            read_out(r, base)
                        };
                        Ok((out, w.into_inner()))
                    }
                    Err(e) => Err(FErr::from(e)),
                }
            }};
        }
        match kind {
            0 => {
                let base = b.as_ptr() as usize;
                let r = go!(&mut *b, |_w: &FlatWrap<T, &mut [u8]>| base);
                Some(r.map(|(o, _)| o))
            }
            1 => {
                if T::ALIGN != 1 {
                    return None;
                }
                let buf: Vec<u8> = b.to_vec();
                let base = buf.as_ptr() as usize;
                let r = go!(buf, |_w: &FlatWrap<T, Vec<u8>>| base);
                Some(r.map(|(o, inner)| {
                    b.copy_from_slice(&inner);
                    o
                }))
            }
            _ => {
                let buf = flatty::AlignedBytes::from_slice(b, T::ALIGN);
                let base = buf.as_ptr() as usize;
                let r = go!(buf, |_w: &FlatWrap<T, flatty::AlignedBytes>| base);
                Some(r.map(|(o, inner)| {
                    b.copy_from_slice(&inner);
                    o
                }))
            }
        }
    }

    fn io_send_blocking(&self, _: &[Value], _: &[u8], _: usize, _: &mut ScriptSink, _: bool) -> SendReport {
        panic!("harness: {} is not registered as a message shape", self.ty.short())
    }
    fn io_recv_blocking(&self, _: &mut ScriptSource, _: usize, _: usize, _: usize) -> RecvReport {
        panic!("harness: {} is not registered as a message shape", self.ty.short())
    }
    fn io_async_send(&self, _: &[Value], _: &[u8], _: usize, _: &mut ScriptSink, _: usize, _: bool) -> SendReport {
        panic!("harness: {} is not registered as a message shape", self.ty.short())
    }
    fn io_async_recv(&self, _: &mut ScriptSource, _: usize, _: usize, _: usize, _: usize) -> RecvReport {
        panic!("harness: {} is not registered as a message shape", self.ty.short())
    }
    fn io_async_joined(&self, _: &[Value], _: &[u8], _: usize, _: usize, _: Vec<WOut>, _: Vec<ROut>, _: Vec<bool>, _: &[u8], _: usize) -> JoinedReport {
        panic!("harness: {} is not registered as a message shape", self.ty.short())
    }
}

/// Like `Of<T>`, but with the flatty-io drivers instantiated (message shapes only, to bound compile time).
struct OfIo<T: Shape + ?Sized>(Of<T>);

pub fn entry_io<T: Shape + ?Sized + 'static>() -> Box<dyn DynShape> {
    Box::new(OfIo::<T>(Of::<T> {
        ty: T::ty(),
        _g: PhantomData,
    }))
}

impl<T: Shape + ?Sized> DynShape for OfIo<T> {
    fn ty(&self) -> &Ty {
        self.0.ty()
    }
    fn is_message_shape(&self) -> bool {
        true
    }
    fn consts(&self) -> Consts {
        self.0.consts()
    }
    fn validate(&self, b: &[u8]) -> Result<(), FErr> {
        self.0.validate(b)
    }
    fn from_bytes(&self, b: &[u8]) -> Result<ReadOut, FErr> {
        self.0.from_bytes(b)
    }
    fn from_mut_bytes(&self, b: &mut [u8]) -> Result<ReadOut, FErr> {
        self.0.from_mut_bytes(b)
    }
    fn from_bytes_only(&self, b: &[u8]) -> Result<(), FErr> {
        self.0.from_bytes_only(b)
    }
    fn from_bytes_extent(&self, b: &[u8]) -> Result<(usize, usize, isize), FErr> {
        self.0.from_bytes_extent(b)
    }
    fn from_mut_bytes_only(&self, b: &mut [u8]) -> Result<(), FErr> {
        self.0.from_mut_bytes_only(b)
    }
    fn from_wrapped_bytes(&self, b: &[u8]) -> Result<ReadOut, FErr> {
        self.0.from_wrapped_bytes(b)
    }
    fn wrapped_only(&self, b: &[u8]) -> Result<(), FErr> {
        self.0.wrapped_only(b)
    }
    fn new_in_place(&self, b: &mut [u8], v: &Value, route: &[u8], f: Session) -> Result<(), FErr> {
        self.0.new_in_place(b, v, route, f)
    }
    fn default_in_place(&self, b: &mut [u8], f: Session) -> Option<Result<(), FErr>> {
        self.0.default_in_place(b, f)
    }
    fn map_mut(&self, b: &mut [u8], f: Session) -> Result<(), FErr> {
        self.0.map_mut(b, f)
    }
    fn wrap_new_in_place(&self, kind: u8, b: &mut [u8], v: Option<&Value>, route: &[u8]) -> Option<Result<ReadOut, FErr>> {
        self.0.wrap_new_in_place(kind, b, v, route)
    }

    fn io_send_blocking(&self, msgs: &[Value], routes: &[u8], max_msg_len: usize, sink: &mut ScriptSink, keep_going: bool) -> SendReport {
        crate::io_glue::send_blocking::<T>(msgs, routes, max_msg_len, sink, keep_going)
    }
    fn io_recv_blocking(&self, source: &mut ScriptSource, max_msg_len: usize, max_events: usize, retries: usize) -> RecvReport {
        crate::io_glue::recv_blocking::<T>(source, max_msg_len, max_events, retries)
    }
    fn io_async_send(&self, msgs: &[Value], routes: &[u8], max_msg_len: usize, sink: &mut ScriptSink, max_polls: usize, keep_going: bool) -> SendReport {
        crate::io_glue::async_send::<T>(msgs, routes, max_msg_len, sink, max_polls, keep_going)
    }
    fn io_async_recv(&self, source: &mut ScriptSource, max_msg_len: usize, max_events: usize, retries: usize, max_polls: usize) -> RecvReport {
        crate::io_glue::async_recv::<T>(source, max_msg_len, max_events, retries, max_polls)
    }
    fn io_async_joined(
        &self,
        msgs: &[Value],
        routes: &[u8],
        max_msg_len: usize,
        cap: usize,
        wscript: Vec<WOut>,
        rscript: Vec<ROut>,
        fscript: Vec<bool>,
        schedule: &[u8],
        max_polls: usize,
    ) -> JoinedReport {
        crate::io_glue::async_joined::<T>(msgs, routes, max_msg_len, cap, wscript, rscript, fscript, schedule, max_polls)
    }
}

// silence unused warnings for imports only used by generated code
#[allow(unused_imports)]
pub(crate) mod for_shapes {
    pub use super::{
        entry, entry_io, sized_op, unsized_op, DynShape, LenShape, Op, OpOut, Recorder, Route, Shape, SizedShape, ValEmplacer,
    };
    pub use crate::desc::{Ty, Value};
    pub use flatty::{
        FlatWrap, TrustedRef,
        emplacer::Emplacer,
        error::Error,
        traits::{FlatBase, FlatDefault, FlatSized, FlatUnsized, FlatValidate},
    };
}
#[allow(unused_imports)]
use {FlatBase as _, FlatSized as _, FlatUnsized as _, FlatValidate as _};
