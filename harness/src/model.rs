//! Reference model of the flat format: layout calculator, encoder, decoder.
//!
//! Written from the documentation (crate docs, FlexVec diagram, property
//! statements) and the plain C layout rule. It never calls into flatty.
//!
//! View rules ("how a region of n bytes is handed down"):
//!  * every unsized type first rounds its region *down* to its own alignment;
//!  * an unsized struct hands everything after its sized prefix to its last field;
//!  * an unsized enum hands its payload region to the fields of the active
//!    variant, the last of which gets the rest;
//!  * FlatVec / FlatString capacity is what fits in the region after the length
//!    field (data offset), clamped to the length type's maximum;
//!  * a sealed FlexVec item owns [slot + header, slot + offset), the item marked
//!    with `L::MAX` owns the rest of the region.

use crate::desc::*;

pub fn round_up(x: usize, m: usize) -> usize {
    (x + m - 1) / m * m
}
pub fn round_down(x: usize, m: usize) -> usize {
    x / m * m
}

pub fn align(ty: &Ty) -> usize {
    match ty {
        Ty::Unit | Ty::Bool | Ty::PInt { .. } | Ty::PFloat { .. } => 1,
        Ty::Prim(p) => p.align(),
        Ty::Array(t, _) => align(t),
        Ty::Struct(s) => s.fields.iter().map(align).max().unwrap_or(1),
        Ty::Enum(e) => e
            .variants
            .iter()
            .flat_map(|v| v.fields.iter())
            .map(align)
            .max()
            .unwrap_or(1)
            .max(e.tag.size()),
        Ty::FlatVec(t, l) | Ty::FlexVec(t, l) => align(t).max(l.align()),
        Ty::FlatString(l) => l.align(),
    }
}

/// C rule: offset of each field = previous end rounded up to the field's alignment.
/// Returns (offsets, end of last field).
pub fn field_offsets(fields: &[Ty]) -> (Vec<usize>, usize) {
    let mut offs = Vec::with_capacity(fields.len());
    let mut pos = 0;
    for (i, f) in fields.iter().enumerate() {
        pos = round_up(pos, align(f));
        offs.push(pos);
        if i + 1 < fields.len() || f.is_sized() {
            pos += size(f);
        }
    }
    (offs, pos)
}

/// Offset of the payload (union / data) of an enum.
pub fn enum_data_offset(e: &EnumDef) -> usize {
    if e.sized {
        let ua = e.variants.iter().flat_map(|v| v.fields.iter()).map(align).max().unwrap_or(1);
        round_up(e.tag.size(), ua)
    } else {
        round_up(e.tag.size(), align(&Ty::Enum(Box::new(e.clone()))))
    }
}

/// Size of a sized type.
pub fn size(ty: &Ty) -> usize {
    match ty {
        Ty::Unit => 0,
        Ty::Prim(p) => p.size(),
        Ty::Bool => 1,
        Ty::PInt { size, .. } | Ty::PFloat { size, .. } => *size,
        Ty::Array(t, n) => size(t) * n,
        Ty::Struct(s) => {
            assert!(s.sized, "harness: size() of unsized struct");
            let (_, end) = field_offsets(&s.fields);
            round_up(end, align(ty))
        }
        Ty::Enum(e) => {
            assert!(e.sized, "harness: size() of unsized enum");
            if e.c_like() {
                return e.tag.size();
            }
            let ua = e.variants.iter().flat_map(|v| v.fields.iter()).map(align).max().unwrap_or(1);
            let mut us = 0;
            for v in &e.variants {
                let (_, end) = field_offsets(&v.fields);
                let va = v.fields.iter().map(align).max().unwrap_or(1);
                us = us.max(round_up(end, va));
            }
            let us = round_up(us, ua);
            round_up(enum_data_offset(e) + us, align(ty))
        }
        _ => panic!("harness: size() of unsized type {:?}", ty),
    }
}

/// Offset of the element data / first item header region in a container.
pub fn data_offset(ty: &Ty) -> usize {
    match ty {
        Ty::FlatVec(t, l) => l.size().max(align(t)),
        Ty::FlatString(l) => l.size(),
        Ty::FlexVec(t, l) => l.size().max(align(t)),
        _ => panic!("harness: data_offset of non-container"),
    }
}

/// Smallest number of bytes a region must have to hold any value of the type
/// (and: mapping exactly that many bytes never yields a view claiming more).
pub fn min_size(ty: &Ty) -> usize {
    match ty {
        Ty::Struct(s) if !s.sized => {
            let (offs, _) = field_offsets(&s.fields);
            let last = s.fields.last().unwrap();
            round_up(offs.last().unwrap() + min_size(last), align(ty))
        }
        Ty::Enum(e) if !e.sized => {
            let m = e.variants.iter().map(|v| variant_min_size(&v.fields)).min().unwrap();
            round_up(enum_data_offset(e) + m, align(ty))
        }
        Ty::FlatVec(..) | Ty::FlatString(..) | Ty::FlexVec(..) => data_offset(ty),
        _ => size(ty),
    }
}

/// Minimal payload size of an (unsized-enum) variant's field list.
pub fn variant_min_size(fields: &[Ty]) -> usize {
    if fields.is_empty() {
        return 0;
    }
    let (offs, _) = field_offsets(fields);
    offs.last().unwrap() + min_size(fields.last().unwrap())
}

/// Number of bytes of a region of `n` bytes that a mapped view of `ty` covers
/// (what `size_of_val` must report).
pub fn view_len(ty: &Ty, n: usize) -> usize {
    if ty.is_sized() {
        return size(ty);
    }
    let a = align(ty);
    let n = round_down(n, a);
    match ty {
        Ty::FlatVec(t, _) => {
            let d = data_offset(ty);
            // zero-sized elements: the element storage is empty whatever the count
            let cnt = (n - d).checked_div(size(t)).unwrap_or(0);
            round_up(d + cnt * size(t), a)
        }
        Ty::FlatString(_) | Ty::FlexVec(..) => n,
        Ty::Struct(s) => {
            let (offs, _) = field_offsets(&s.fields);
            let lo = *offs.last().unwrap();
            round_up(lo + view_len(s.fields.last().unwrap(), n - lo), a)
        }
        Ty::Enum(_) => n,
        _ => unreachable!(),
    }
}

/// Capacity (in elements / bytes) of a FlatVec / FlatString mapped on `n` bytes.
pub fn capacity(ty: &Ty, n: usize) -> usize {
    let n = round_down(n, align(ty));
    let d = data_offset(ty);
    match ty {
        // zero-sized elements take no room: only the length type bounds their number
        Ty::FlatVec(t, l) => (n - d).checked_div(size(t)).unwrap_or(usize::MAX).min(l.max().min(usize::MAX as u128) as usize),
        Ty::FlatString(l) => (n - d).min(l.max().min(usize::MAX as u128) as usize),
        _ => panic!("harness: capacity of non-vector"),
    }
}

// ---------------------------------------------------------------------------
// scalars

pub fn scalar_size(ty: &Ty) -> usize {
    match ty {
        Ty::Prim(p) => p.size(),
        Ty::Bool => 1,
        Ty::PInt { size, .. } | Ty::PFloat { size, .. } => *size,
        _ => panic!("harness: not a scalar"),
    }
}

pub fn scalar_be(ty: &Ty) -> bool {
    match ty {
        Ty::PInt { be, .. } | Ty::PFloat { be, .. } => *be,
        _ => cfg!(target_endian = "big"),
    }
}

pub fn put_uint(out: &mut [u8], x: u128, be: bool) {
    let n = out.len();
    for i in 0..n {
        let b = (x >> (8 * i)) as u8;
        if be {
            out[n - 1 - i] = b;
        } else {
            out[i] = b;
        }
    }
}
pub fn get_uint(b: &[u8], be: bool) -> u128 {
    let n = b.len();
    let mut x = 0u128;
    for i in 0..n {
        let v = if be { b[n - 1 - i] } else { b[i] } as u128;
        x |= v << (8 * i);
    }
    x
}
pub fn put_len(out: &mut [u8], l: LenTy, x: u128) {
    put_uint(&mut out[..l.size()], x, l.big_endian() || (!l.is_portable() && cfg!(target_endian = "big")));
}
pub fn get_len(b: &[u8], l: LenTy) -> u128 {
    get_uint(&b[..l.size()], l.big_endian() || (!l.is_portable() && cfg!(target_endian = "big")))
}

// ---------------------------------------------------------------------------
// extent / size of a value under canonical (minimal) packing

/// End of used data of `v` under the canonical encoding (FlexVec items packed
/// minimally, last item marked with `L::MAX`).
pub fn extent(ty: &Ty, v: &Value) -> usize {
    match (ty, v) {
        (Ty::FlatVec(t, _), Value::Vec(xs)) => data_offset(ty) + xs.len() * size(t),
        (Ty::FlatString(_), Value::Str(s)) => data_offset(ty) + s.len(),
        (Ty::FlexVec(t, l), Value::Flex(xs)) => {
            let os = data_offset(ty);
            if xs.is_empty() {
                return l.size();
            }
            let a = align(ty);
            let mut pos = 0;
            for (i, x) in xs.iter().enumerate() {
                if i + 1 < xs.len() {
                    pos += os + round_up(size_of(t, x), a);
                } else {
                    pos += os + extent(t, x);
                }
            }
            pos
        }
        (Ty::Struct(s), Value::Struct(fs)) if !s.sized => {
            let (offs, _) = field_offsets(&s.fields);
            offs.last().unwrap() + extent(s.fields.last().unwrap(), fs.last().unwrap())
        }
        (Ty::Enum(e), Value::Enum(i, fs)) if !e.sized => {
            let fields = &e.variants[*i].fields;
            let d = enum_data_offset(e);
            if fields.is_empty() {
                // only the tag is used, but the payload offset is part of the header
                return e.tag.size();
            }
            let (offs, end) = field_offsets(fields);
            let last = fields.last().unwrap();
            if last.is_sized() {
                d + end
            } else {
                d + offs.last().unwrap() + extent(last, fs.last().unwrap())
            }
        }
        _ => size(ty),
    }
}

/// Reference `size()`: extent rounded up to the alignment.
pub fn size_of(ty: &Ty, v: &Value) -> usize {
    if ty.is_sized() {
        size(ty)
    } else {
        round_up(extent(ty, v), align(ty)).max(min_size_of_state(ty, v))
    }
}

/// For an unsized enum the header (tag + padding up to the payload) always counts.
fn min_size_of_state(ty: &Ty, v: &Value) -> usize {
    match (ty, v) {
        (Ty::Enum(e), Value::Enum(..)) if !e.sized => enum_data_offset(e),
        _ => 0,
    }
}

// ---------------------------------------------------------------------------
// encoder

#[derive(Debug, Clone, PartialEq)]
pub struct DoesNotFit;

/// Source of the free choices of the encoding (only FlexVec has any).
pub trait Style {
    /// terminate the chain with a 0 header instead of marking the last item with MAX
    fn flex_zero_term(&mut self) -> bool {
        false
    }
    /// extra slack (in units of the alignment) added to a sealed item's stride
    fn flex_slack(&mut self) -> usize {
        0
    }
}
pub struct Canonical;
impl Style for Canonical {}

pub struct Image {
    pub bytes: Vec<u8>,
    /// true where the byte is defined by the content (not padding / spare room)
    pub mask: Vec<bool>,
    /// header / constrained fields written by the encoder (for boundary substitution and corruption)
    pub fields: Vec<HeaderField>,
}

#[derive(Clone, Debug, PartialEq)]
pub enum FieldKind {
    Bool,
    Tag { variants: usize },
    Len { cap: usize },
    Offset { remaining: usize, header: usize, max: u128 },
    /// string payload: [off, off+size) are the UTF-8 bytes
    Utf8,
}

#[derive(Clone, Debug, PartialEq)]
pub struct HeaderField {
    pub off: usize,
    pub size: usize,
    pub be: bool,
    pub kind: FieldKind,
    /// nesting depth of the field's owner
    pub depth: usize,
    /// largest container element index on the way to the field
    pub max_index: usize,
}

/// Encode `v` into a region of `n` bytes pre-filled with `fill`.
pub fn encode(ty: &Ty, v: &Value, n: usize, fill: u8, style: &mut dyn Style) -> Result<Image, DoesNotFit> {
    let mut img = Image {
        bytes: vec![fill; n],
        mask: vec![false; n],
        fields: vec![],
    };
    enc(ty, v, &mut img, 0, n, style, (0, 0))?;
    Ok(img)
}

fn put(img: &mut Image, off: usize, data: &[u8]) {
    img.bytes[off..off + data.len()].copy_from_slice(data);
    for m in &mut img.mask[off..off + data.len()] {
        *m = true;
    }
}

/// Encode into img[off .. off+n]. Returns extent (relative to off).
fn enc(ty: &Ty, v: &Value, img: &mut Image, off: usize, n: usize, style: &mut dyn Style, ctx: (usize, usize)) -> Result<usize, DoesNotFit> {
    if n < min_size(ty) {
        return Err(DoesNotFit);
    }
    let (depth, max_index) = ctx;
    let sub = (depth + 1, max_index);
    let native_be = cfg!(target_endian = "big");
    let field = |img: &mut Image, off: usize, size: usize, be: bool, kind: FieldKind| {
        img.fields.push(HeaderField {
            off,
            size,
            be,
            kind,
            depth,
            max_index,
        })
    };
    match (ty, v) {
        (Ty::Unit, _) => Ok(0),
        (Ty::Prim(_), _) | (Ty::PInt { .. }, _) | (Ty::PFloat { .. }, _) => {
            let s = scalar_size(ty);
            let mut b = vec![0u8; s];
            put_uint(&mut b, v.scalar(), scalar_be(ty));
            put(img, off, &b);
            Ok(s)
        }
        (Ty::Bool, _) => {
            put(img, off, &[v.scalar() as u8]);
            field(img, off, 1, false, FieldKind::Bool);
            Ok(1)
        }
        (Ty::Array(t, k), Value::Array(xs)) => {
            assert_eq!(xs.len(), *k);
            let s = size(t);
            for (i, x) in xs.iter().enumerate() {
                enc(t, x, img, off + i * s, s, style, (depth + 1, max_index.max(i)))?;
            }
            Ok(s * k)
        }
        (Ty::Struct(s), Value::Struct(fs)) => {
            let n = if s.sized { n } else { round_down(n, align(ty)) };
            let (offs, _) = field_offsets(&s.fields);
            let mut end = 0;
            for (i, (f, x)) in s.fields.iter().zip(fs).enumerate() {
                let room = if i + 1 < s.fields.len() || f.is_sized() { size(f) } else { n - offs[i] };
                end = offs[i] + enc(f, x, img, off + offs[i], room, style, sub)?;
            }
            Ok(if s.sized { size(ty) } else { end })
        }
        (Ty::Enum(e), Value::Enum(i, fs)) => {
            let mut tb = vec![0u8; e.tag.size()];
            put_uint(&mut tb, *i as u128, cfg!(target_endian = "big"));
            put(img, off, &tb);
            field(img, off, e.tag.size(), native_be, FieldKind::Tag { variants: e.variants.len() });
            let d = enum_data_offset(e);
            let n = if e.sized { size(ty) } else { round_down(n, align(ty)) };
            let fields = &e.variants[*i].fields;
            let (offs, _) = field_offsets(fields);
            if !e.sized && n - d < variant_min_size(fields) {
                return Err(DoesNotFit);
            }
            let mut end = e.tag.size();
            for (k, (f, x)) in fields.iter().zip(fs).enumerate() {
                let room = if k + 1 < fields.len() || f.is_sized() { size(f) } else { n - d - offs[k] };
                end = d + offs[k] + enc(f, x, img, off + d + offs[k], room, style, sub)?;
            }
            Ok(if e.sized { size(ty) } else { end })
        }
        (Ty::FlatVec(t, l), Value::Vec(xs)) => {
            if xs.len() > capacity(ty, n) {
                return Err(DoesNotFit);
            }
            let mut lb = vec![0u8; l.size()];
            put_len(&mut lb, *l, xs.len() as u128);
            put(img, off, &lb);
            field(img, off, l.size(), l.big_endian() || (!l.is_portable() && native_be), FieldKind::Len { cap: capacity(ty, n) });
            let d = data_offset(ty);
            let s = size(t);
            for (i, x) in xs.iter().enumerate() {
                enc(t, x, img, off + d + i * s, s, style, (depth + 1, max_index.max(i)))?;
            }
            Ok(d + xs.len() * s)
        }
        (Ty::FlatString(l), Value::Str(st)) => {
            if st.len() > capacity(ty, n) {
                return Err(DoesNotFit);
            }
            let mut lb = vec![0u8; l.size()];
            put_len(&mut lb, *l, st.len() as u128);
            put(img, off, &lb);
            let lbe = l.big_endian() || (!l.is_portable() && native_be);
            field(img, off, l.size(), lbe, FieldKind::Len { cap: capacity(ty, n) });
            field(img, off + l.size(), st.len(), false, FieldKind::Utf8);
            put(img, off + l.size(), st.as_bytes());
            Ok(l.size() + st.len())
        }
        (Ty::FlexVec(t, l), Value::Flex(xs)) => {
            let a = align(ty);
            let n = round_down(n, a);
            let os = data_offset(ty);
            let mut lb = vec![0u8; l.size()];
            let mut pos = 0;
            let zero_term = !xs.is_empty() && style.flex_zero_term();
            for (i, x) in xs.iter().enumerate() {
                if pos + os > n {
                    return Err(DoesNotFit);
                }
                let last = i + 1 == xs.len();
                let lbe = l.big_endian() || (!l.is_portable() && native_be);
                let okind = FieldKind::Offset {
                    remaining: n - pos,
                    header: os,
                    max: l.max(),
                };
                let ictx = (depth + 1, max_index.max(i));
                if last && !zero_term {
                    put_len(&mut lb, *l, l.max());
                    put(img, off + pos, &lb);
                    field(img, off + pos, l.size(), lbe, okind);
                    let e = enc(t, x, img, off + pos + os, n - pos - os, style, ictx)?;
                    return Ok(pos + os + e);
                }
                let mut stride = os + round_up(size_of(t, x), a) + style.flex_slack() * a;
                if last {
                    // leave room for the terminator
                    if pos + stride + l.size() > n {
                        stride = os + round_up(size_of(t, x), a);
                    }
                } else if pos + stride + os > n {
                    stride = os + round_up(size_of(t, x), a);
                }
                if pos + stride > n || stride as u128 >= l.max() {
                    return Err(DoesNotFit);
                }
                put_len(&mut lb, *l, stride as u128);
                put(img, off + pos, &lb);
                field(img, off + pos, l.size(), lbe, okind);
                enc(t, x, img, off + pos + os, stride - os, style, ictx)?;
                pos += stride;
            }
            if pos + l.size() > n {
                return Err(DoesNotFit);
            }
            put_len(&mut lb, *l, 0);
            put(img, off + pos, &lb);
            let lbe = l.big_endian() || (!l.is_portable() && native_be);
            field(
                img,
                off + pos,
                l.size(),
                lbe,
                FieldKind::Offset {
                    remaining: n - pos,
                    header: os,
                    max: l.max(),
                },
            );
            Ok(pos + l.size())
        }
        _ => panic!("harness: value {:?} does not match type {:?}", v, ty),
    }
}

// ---------------------------------------------------------------------------
// decoder

#[derive(Clone, Debug, PartialEq, Eq, Hash)]
pub enum RejKind {
    Misaligned,
    TooSmall,
    BadTag,
    BadBool,
    BadUtf8,
    LenOverCap,
    /// FlexVec offset smaller than the header, or not a multiple of the alignment
    BadOffset,
}

#[derive(Clone, Debug, PartialEq, Eq)]
pub struct Reject {
    pub kind: RejKind,
    /// byte range (from the start of the top-level region) of the offending unit
    pub lo: usize,
    pub hi: usize,
}

/// One visited node of a decoded value, in pre-order.
#[derive(Clone, Debug, PartialEq, Eq)]
pub struct Node {
    pub path: Vec<u16>,
    pub off: usize,
    /// bytes the view of this node covers (`size_of_val`)
    pub len: usize,
    /// capacity for FlatVec / FlatString
    pub cap: Option<usize>,
    /// region handed to this node (before its own rounding)
    pub region: usize,
}

#[derive(Clone, Debug, PartialEq)]
pub struct Decoded {
    pub value: Value,
    pub nodes: Vec<Node>,
    /// end of used data
    pub extent: usize,
}

impl Decoded {
    pub fn node(&self, path: &[u16]) -> Option<&Node> {
        self.nodes.iter().find(|n| n.path == path)
    }
}

/// Decode a region. `misalign` = address of the region modulo the type's alignment.
pub fn decode(ty: &Ty, bytes: &[u8], misalign: usize) -> Result<Decoded, Reject> {
    if misalign % align(ty) != 0 {
        return Err(Reject {
            kind: RejKind::Misaligned,
            lo: 0,
            hi: 0,
        });
    }
    let mut nodes = Vec::new();
    let mut path = Vec::new();
    let (value, extent) = dec(ty, bytes, 0, bytes.len(), &mut path, &mut nodes)?;
    Ok(Decoded { value, nodes, extent })
}

fn rej<T>(kind: RejKind, lo: usize, hi: usize) -> Result<T, Reject> {
    Err(Reject { kind, lo, hi })
}

/// Decode b[off .. off+n]; returns (value, extent relative to off).
fn dec(ty: &Ty, b: &[u8], off: usize, n: usize, path: &mut Vec<u16>, nodes: &mut Vec<Node>) -> Result<(Value, usize), Reject> {
    if n < min_size(ty) {
        return rej(RejKind::TooSmall, off, off + n);
    }
    let idx = nodes.len();
    nodes.push(Node {
        path: path.clone(),
        off,
        len: view_len(ty, n),
        cap: None,
        region: n,
    });
    match ty {
        Ty::Unit => Ok((Value::Unit, 0)),
        Ty::Prim(_) | Ty::PInt { .. } | Ty::PFloat { .. } => {
            let s = scalar_size(ty);
            Ok((Value::Scalar(get_uint(&b[off..off + s], scalar_be(ty))), s))
        }
        Ty::Bool => match b[off] {
            0 => Ok((Value::Bool(false), 1)),
            1 => Ok((Value::Bool(true), 1)),
            _ => rej(RejKind::BadBool, off, off + 1),
        },
        Ty::Array(t, k) => {
            let s = size(t);
            let mut xs = Vec::with_capacity(*k);
            for i in 0..*k {
                path.push(i as u16);
                let r = dec(t, b, off + i * s, s, path, nodes);
                path.pop();
                xs.push(r?.0);
            }
            Ok((Value::Array(xs), s * k))
        }
        Ty::Struct(s) => {
            let n = if s.sized { n } else { round_down(n, align(ty)) };
            let (offs, _) = field_offsets(&s.fields);
            let mut vals = Vec::new();
            let mut end = 0;
            for (i, f) in s.fields.iter().enumerate() {
                let room = if i + 1 < s.fields.len() || f.is_sized() { size(f) } else { n - offs[i] };
                path.push(i as u16);
                let r = dec(f, b, off + offs[i], room, path, nodes);
                path.pop();
                let (v, e) = r?;
                vals.push(v);
                end = offs[i] + e;
            }
            Ok((Value::Struct(vals), if s.sized { size(ty) } else { end }))
        }
        Ty::Enum(e) => {
            let ts = e.tag.size();
            let tag = get_uint(&b[off..off + ts], cfg!(target_endian = "big")) as usize;
            if tag >= e.variants.len() {
                return rej(RejKind::BadTag, off, off + ts);
            }
            let d = enum_data_offset(e);
            let n = if e.sized { size(ty) } else { round_down(n, align(ty)) };
            let fields = &e.variants[tag].fields;
            if !e.sized && n - d < variant_min_size(fields) {
                return rej(RejKind::TooSmall, off + d, off + n);
            }
            let (offs, _) = field_offsets(fields);
            let mut vals = Vec::new();
            let mut end = ts;
            for (k, f) in fields.iter().enumerate() {
                let room = if k + 1 < fields.len() || f.is_sized() { size(f) } else { n - d - offs[k] };
                path.push(k as u16);
                let r = dec(f, b, off + d + offs[k], room, path, nodes);
                path.pop();
                let (v, x) = r?;
                vals.push(v);
                end = d + offs[k] + x;
            }
            Ok((Value::Enum(tag, vals), if e.sized { size(ty) } else { end }))
        }
        Ty::FlatVec(t, l) => {
            let cap = capacity(ty, n);
            nodes[idx].cap = Some(cap);
            let len = get_len(&b[off..], *l);
            if len > cap as u128 {
                return rej(RejKind::LenOverCap, off, off + l.size());
            }
            let len = len as usize;
            let d = data_offset(ty);
            let s = size(t);
            let mut xs = Vec::with_capacity(len);
            for i in 0..len {
                path.push(i as u16);
                let r = dec(t, b, off + d + i * s, s, path, nodes);
                path.pop();
                xs.push(r?.0);
            }
            Ok((Value::Vec(xs), d + len * s))
        }
        Ty::FlatString(l) => {
            let cap = capacity(ty, n);
            nodes[idx].cap = Some(cap);
            let len = get_len(&b[off..], *l);
            if len > cap as u128 {
                return rej(RejKind::LenOverCap, off, off + l.size());
            }
            let len = len as usize;
            let d = l.size();
            match std::str::from_utf8(&b[off + d..off + d + len]) {
                Ok(s) => Ok((Value::Str(s.to_string()), d + len)),
                Err(e) => {
                    let lo = off + d + e.valid_up_to();
                    let hi = match e.error_len() {
                        Some(k) => lo + k,
                        None => off + d + len,
                    };
                    rej(RejKind::BadUtf8, lo, hi.max(lo + 1))
                }
            }
        }
        Ty::FlexVec(t, l) => {
            let a = align(ty);
            let n = round_down(n, a);
            let os = data_offset(ty);
            let mut pos = 0;
            let mut xs = Vec::new();
            loop {
                if pos + l.size() > n {
                    return rej(RejKind::TooSmall, off + pos, off + n);
                }
                let o = get_len(&b[off + pos..], *l);
                if o == 0 {
                    return Ok((Value::Flex(xs), pos + l.size()));
                }
                let last = o == l.max();
                let (room, stride) = if last {
                    if pos + os > n {
                        return rej(RejKind::TooSmall, off + pos, off + n);
                    }
                    (n - pos - os, 0)
                } else {
                    if o < os as u128 || o % a as u128 != 0 {
                        return rej(RejKind::BadOffset, off + pos, off + pos + l.size());
                    }
                    if o > (n - pos) as u128 {
                        return rej(RejKind::TooSmall, off + pos, off + n);
                    }
                    (o as usize - os, o as usize)
                };
                path.push(xs.len() as u16);
                let r = dec(t, b, off + pos + os, room, path, nodes);
                path.pop();
                let (v, e) = r?;
                xs.push(v);
                if last {
                    return Ok((Value::Flex(xs), pos + os + e));
                }
                pos += stride;
            }
        }
    }
}

/// Structure of a FlexVec chain in a region (used by the history checks to
/// decide whether a push fits). Returns (strides of sealed items, position of
/// the last slot, whether the chain ends with a MAX-marked item).
pub struct FlexGeo {
    pub slots: Vec<usize>,
    pub last_is_max: bool,
    /// position of the terminator (0-terminated) or of the MAX slot
    pub tail_pos: usize,
}

pub fn flex_geo(ty: &Ty, b: &[u8]) -> FlexGeo {
    let (l, a) = match ty {
        Ty::FlexVec(_, l) => (*l, align(ty)),
        _ => panic!("harness: flex_geo of non-flex"),
    };
    let _ = a;
    let mut pos = 0;
    let mut slots = Vec::new();
    loop {
        let o = get_len(&b[pos..], l);
        if o == 0 {
            return FlexGeo {
                slots,
                last_is_max: false,
                tail_pos: pos,
            };
        }
        slots.push(pos);
        if o == l.max() {
            return FlexGeo {
                slots,
                last_is_max: true,
                tail_pos: pos,
            };
        }
        pos += o as usize;
    }
}
