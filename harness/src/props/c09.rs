//! C09 — IO faults surface as errors: no hang, no corrupt stream, nothing lost on retry.

use super::io_common::*;
use crate::desc::*;
use crate::glue::DynShape;
use crate::io_glue::{RecvRes, SendReport, SendRes};
use crate::model;
use crate::pipes::*;
use crate::run::*;
use crate::tape::Tape;
use serde_json::json;
use std::io::ErrorKind;

pub struct C09;

pub const KINDS: [ErrorKind; 10] = [
    ErrorKind::Interrupted,
    ErrorKind::WouldBlock,
    ErrorKind::BrokenPipe,
    ErrorKind::Other,
    ErrorKind::TimedOut,
    ErrorKind::ConnectionReset,
    ErrorKind::UnexpectedEof,
    ErrorKind::OutOfMemory,
    ErrorKind::WriteZero,
    ErrorKind::PermissionDenied,
];

/// Judge the sender side. Returns Err((key, msg)).
pub fn judge_send(name: &str, msgs: &Msgs, rep: &SendReport, data: &[u8], log: &[Event], what: &str) -> Result<(), (String, String)> {
    // a send during which the pipe's flush failed must not report success
    let mut from = 0usize;
    for (i, r) in rep.results.iter().enumerate() {
        let to = rep.log_lens.get(i).copied().unwrap_or(log.len()).min(log.len());
        if let Some(Event::FlushErr(k)) = log[from.min(to)..to].iter().find(|e| matches!(e, Event::FlushErr(_))) {
            if *r == SendRes::Sent {
                return Err(("flush-error-swallowed".into(), format!("{}: send #{} reports success although the pipe's flush failed with {:?} during it {}", name, i, k, what)));
            }
        }
        from = to;
    }
    let mut cursor = 0usize;
    let mut dead = false; // a partial message is in the stream: nothing may follow
    for (i, r) in rep.results.iter().enumerate() {
        let end = rep.lens.get(i).copied().unwrap_or(data.len());
        let delta = end - cursor;
        let size = msgs.starts[i + 1] - msgs.starts[i];
        let img = &msgs.images[i];
        if let SendRes::Panic(m) = r {
            if m.contains(BUDGET_MSG) {
                return Err(("retries-forever".into(), format!("{}: send #{} kept calling the failing pipe ({}) {}", name, i, m, what)));
            }
            // the documented reaction to a poisoned sender is an assertion; only accept that one, and only once dead
            if !(dead && m.contains("poisoned")) {
                return Err(("panic".into(), format!("{}: send #{} panicked: {} {}", name, i, m, what)));
            }
        }
        if dead && delta > 0 {
            return Err((
                "appended-after-partial".into(),
                format!("{}: send #{} appended {} bytes after an earlier message was only written partially {}", name, i, delta, what),
            ));
        }
        if dead && *r == SendRes::Sent {
            return Err(("sent-after-partial".into(), format!("{}: send #{} reports success after an earlier partial write {}", name, i, what)));
        }
        // the appended bytes are a prefix of this message's encoding
        if delta > size {
            return Err(("too-many-bytes".into(), format!("{}: send #{} wrote {} bytes for a {}-byte message {}", name, i, delta, size, what)));
        }
        for k in 0..delta {
            if img.mask[k] && data[cursor + k] != img.bytes[k] {
                return Err((
                    "corrupt-stream".into(),
                    format!("{}: byte {} written by send #{} is {:#04x}, the message has {:#04x} {}", name, k, i, data[cursor + k], img.bytes[k], what),
                ));
            }
        }
        match r {
            SendRes::Sent => {
                if delta != size {
                    return Err((
                        "short-send".into(),
                        format!("{}: send #{} reports success but only {} of {} bytes reached the sink {}", name, i, delta, size, what),
                    ));
                }
            }
            _ => {
                if delta == size && size > 0 {
                    // error reported although everything was written (e.g. flush failure): acceptable, stream stays whole
                } else if delta > 0 {
                    dead = true;
                }
            }
        }
        cursor = end;
    }
    if cursor != data.len() {
        return Err(("untracked-bytes".into(), format!("{}: {} bytes in the sink are not accounted for {}", name, data.len() - cursor, what)));
    }
    Ok(())
}

/// Judge the receiver side under read faults: messages seen are a prefix of / all of the sent ones.
pub fn judge_recv(name: &str, sent: &[Value], recvs: &[RecvRes], stream_complete: bool, transient_only: bool, what: &str) -> Result<(), (String, String)> {
    let mut i = 0;
    let mut closed = false;
    for r in recvs {
        match r {
            RecvRes::Msg { value, .. } => {
                if closed {
                    return Err(("msg-after-closed".into(), format!("{}: a message after Closed {}", name, what)));
                }
                if i >= sent.len() || value != &sent[i] {
                    return Err((
                        "wrong-message".into(),
                        format!(
                            "{}: received #{} = {} but sent {:?} {}",
                            name,
                            i,
                            value.show(),
                            sent.get(i).map(|v| v.show()),
                            what
                        ),
                    ));
                }
                i += 1;
            }
            RecvRes::Read(_) => {}
            RecvRes::Retained => {}
            RecvRes::Closed => closed = true,
            RecvRes::Parse(e) => return Err(("parse-error".into(), format!("{}: parse error {}@{} on a well-formed stream {}", name, e.kind, e.pos, what))),
            RecvRes::Panic(m) | RecvRes::DropPanic(m) => {
                let key = if m.contains(BUDGET_MSG) { "retries-forever" } else { "panic" };
                return Err((key.into(), format!("{}: receiver panicked: {} {}", name, m, what)));
            }
        }
    }
    if transient_only && stream_complete {
        if i != sent.len() {
            return Err(("lost-message".into(), format!("{}: after retrying transient read errors only {} of {} messages were received {}", name, i, sent.len(), what)));
        }
        if !closed {
            return Err(("no-closed".into(), format!("{}: end of stream was not reported as Closed {}", name, what)));
        }
    }
    if closed && stream_complete && i != sent.len() && transient_only {
        return Err(("lost-message".into(), format!("{}: Closed after {} of {} messages {}", name, i, sent.len(), what)));
    }
    Ok(())
}

fn fixed_msgs(ty: &Ty, which: usize) -> Msgs {
    // deterministic small message lists: tapes with fixed bytes
    let tapes: [&[u8]; 3] = [
        &[140, 200, 3, 9, 9, 9, 9, 9, 9, 9, 9, 9, 9, 9, 9, 9, 9, 9, 9, 9, 9, 9, 9, 9, 9, 9, 9, 9, 9, 9, 200, 128, 77, 1, 1, 1, 1, 1, 1, 1, 1, 1, 1, 1, 1],
        &[255, 90, 100, 120, 140, 160, 180, 200, 220, 240, 10, 20, 30, 40, 50, 60, 70, 80, 90, 100, 110, 120, 130, 140, 150, 160, 170, 180, 190, 200, 210, 220, 230],
        &[100, 255, 255, 255, 255, 0, 0, 0, 0, 0, 0, 0, 0, 0, 0, 0, 255, 255, 255, 255, 255, 255, 255, 255, 255, 255, 255],
    ];
    gen_msgs(ty, &mut Tape::new(tapes[which % 3]), 3, 200)
}

#[derive(Default, Clone, Debug)]
pub struct FlushFaults {
    /// k-th flush call answers Pending first
    pub pending: Vec<bool>,
    /// k-th answered flush call fails with this kind
    pub errs: Vec<Option<ErrorKind>>,
    pub tail: Option<ErrorKind>,
}

fn run_send(sh: &dyn DynShape, asynchronous: bool, msgs: &Msgs, max_len: usize, script: Vec<WOut>, tail: WOut, flush: &FlushFaults, budget: usize) -> Result<(SendReport, Vec<u8>, usize, Vec<Event>), String> {
    let mut sink = ScriptSink::new(script, tail, budget);
    sink.flush_script = flush.pending.clone();
    sink.flush_errs = flush.errs.clone();
    sink.flush_err_tail = flush.tail;
    let rep = if asynchronous {
        lib(|| sh.io_async_send(&msgs.values, &[], max_len, &mut sink, 4 * budget + 64, true))?
    } else {
        lib(|| sh.io_send_blocking(&msgs.values, &[], max_len, &mut sink, true))?
    };
    Ok((rep, sink.data.clone(), sink.calls, sink.log.clone()))
}

#[allow(clippy::too_many_arguments)]
fn run_recv(sh: &dyn DynShape, asynchronous: bool, data: Vec<u8>, max_len: usize, nmsgs: usize, script: Vec<ROut>, tail: ROut, budget: usize, retries: usize, capacity: Option<usize>) -> Result<(Vec<RecvRes>, bool), String> {
    let mut source = ScriptSource::new(data, script, tail, budget);
    // an explicit (tight) buffer capacity makes the receiver compact its buffer often
    crate::io_glue::IO_CAPACITY.with(|c| c.set(capacity));
    struct Reset;
    impl Drop for Reset {
        fn drop(&mut self) {
            crate::io_glue::IO_CAPACITY.with(|c| c.set(None));
        }
    }
    let _reset = Reset;
    if asynchronous {
        let r = lib(|| sh.io_async_recv(&mut source, max_len, nmsgs + retries + 4, retries, 4 * budget + 64))?;
        Ok((r.events, r.stalled))
    } else {
        Ok((lib(|| sh.io_recv_blocking(&mut source, max_len, nmsgs + retries + 4, retries))?.events, false))
    }
}

impl Property for C09 {
    fn id(&self) -> &'static str {
        "C09"
    }
    fn level(&self) -> &'static str {
        "fault_enumeration"
    }
    fn rule(&self) -> String {
        "fault enumeration: (1) exhaustively, for fixed 2-3-message streams of several message shapes: EVERY single-fault script = each pipe call index of the fault-free run x each outcome (write: Zero, Accept(1), Err(kind) for 10 io::ErrorKinds; read: Err(kind), Eof; async flush: Err(kind) at the flush of each send, optionally after a Pending) x {one-shot, persistent from that call on} x {blocking, async}; (2) random multi-fault scripts from the tape (fault positions drawn from interesting stream cuts including message boundaries); \
         oracle: every send/recv returns within a call budget of 2*bytes + script length + 8 pipe calls (the scripted pipe counts calls; an overrun is the deterministic 'retries forever' verdict); per send the bytes appended to the sink are a prefix of that message's encoding, a send reporting Ok appended the whole message and no flush of the pipe failed during it, and once a message was written only partially nothing is ever appended again (later attempts may fail or hit the documented poisoned assertion); after transient read errors retrying recv yields all messages in order exactly once and then Closed; Eof mid-message yields Closed after the whole messages before it; no parse error on a well-formed stream; \
         non-trivial = a fault at a message boundary or strictly inside a message followed by at least one further pipe call; distinct by (shape, messages, script, variant)"
            .into()
    }
    fn assumptions(&self) -> Vec<String> {
        vec![
            "a one-shot fault that the library absorbs by retrying is accepted as long as the stream stays whole".into(),
            "the exhaustive part covers single faults; multi-fault scripts are sampled".into(),
        ]
    }
    fn applicable_shape(&self, sh: &dyn DynShape) -> bool {
        sh.is_message_shape()
    }
    fn config(&self, tier: Tier) -> PropConfig {
        match tier {
            Tier::Quick => PropConfig { cases: 100000, max_tape: 300, shards: 12 },
            Tier::Thorough => PropConfig { cases: 1600000, max_tape: 500, shards: 16 },
        }
    }
    fn prelude(&self, reg: &Registry, shard: u32, nshards: u32, tier: Tier, st: &mut Stats) -> CaseResult {
        let names: &[&str] = if tier == Tier::Quick {
            &["ATestMsg", "AU32VecU8", "FlatVec<u8, u32>", "AFlexMsg"]
        } else {
            &["ATestMsg", "AU32VecU8", "FlatVec<u8, u32>", "AFlexMsg", "AMsgPad", "APortableMsg", "FlatString<u8>", "FlexVec<FlatVec<u8, u8>, u8>", "AUnsizedStruct", "u32"]
        };
        let mut job = 0u32;
        for (ni, name) in names.iter().enumerate() {
            let Some(idx) = reg.by_name(name) else { continue };
            let sh = reg.shapes[idx].as_ref();
            let ty = sh.ty();
            for which in 0..(if tier == Tier::Quick { 2 } else { 3 }) {
                let msgs = fixed_msgs(ty, which + ni);
                if msgs.values.is_empty() {
                    continue;
                }
                let max_len = msgs.largest;
                let total = msgs.total();
                for asynchronous in [false, true] {
                    job += 1;
                    if job % nshards != shard {
                        continue;
                    }
                    let variant = if asynchronous { "async" } else { "blocking" };
                    // ---- writer: baseline with byte-sized / medium chunks to get several calls per message
                    for chunk in [usize::MAX, 3, 1] {
                        if chunk == 1 && total > 40 {
                            continue;
                        }
                        let base_script: Vec<WOut> = if chunk == usize::MAX { vec![] } else { (0..total).map(|_| WOut::Accept(chunk)).collect() };
                        let budget = 2 * total + base_script.len() + 8;
                        let (_, _, base_calls, _) = match run_send(sh, asynchronous, &msgs, max_len, base_script.clone(), WOut::Accept(chunk), &FlushFaults::default(), budget) {
                            Ok(x) => x,
                            Err(p) => crate::vfail!("panic", "{}: fault-free {} send panicked: {}", name, variant, p),
                        };
                        let mut outcomes = vec![WOut::Zero, WOut::Accept(1)];
                        outcomes.extend(KINDS.iter().map(|k| WOut::Err(*k)));
                        for call in 0..base_calls {
                            for o in &outcomes {
                                for persistent in [false, true] {
                                  for pending_before in [false, true] {
                                    if pending_before && !asynchronous {
                                        continue;
                                    }
                                    let mut script: Vec<WOut> = (0..call).map(|_| WOut::Accept(chunk)).collect();
                                    if pending_before {
                                        // the fault is the first pipe result of a *later* poll of the same send future
                                        script.push(WOut::Pending);
                                    }
                                    script.push(o.clone());
                                    let tail = if persistent { o.clone() } else { WOut::Accept(chunk) };
                                    let what = format!("[{} sender, messages {:?}, chunk {}, fault {:?} at pipe call {}{}{}]", variant, msgs.values.iter().map(|v| v.show()).collect::<Vec<_>>(), chunk as isize, o, call, if persistent { " (persistent)" } else { "" }, if pending_before { ", preceded by a Pending" } else { "" });
                                    st.eval(1);
                                    let (rep, data, _, log) = match run_send(sh, asynchronous, &msgs, max_len, script, tail, &FlushFaults::default(), budget) {
                                        Ok(x) => x,
                                        Err(p) => crate::vfail!("panic", "{}: {} {}", name, p, what),
                                    };
                                    if rep.stalled {
                                        crate::vfail!("stalled", "{}: a send future stopped making progress {}", name, what);
                                    }
                                    if let Err((k, m)) = judge_send(name, &msgs, &rep, &data, &log, &what) {
                                        crate::vfail!(k, "{}", m);
                                    }
                                    st.nontrivial((name, which, variant, chunk, call, format!("{:?}", o), persistent, pending_before), || json!({"side": "write", "shape": name, "variant": variant, "fault": format!("{:?}", o), "call": call, "persistent": persistent, "pending_before_fault": pending_before, "results": format!("{:?}", rep.results)}));
                                  }
                                }
                            }
                        }
                    }
                    // ---- writer: the pipe's flush fails (the async sender flushes once per message)
                    if asynchronous {
                        let n = msgs.values.len();
                        let budget = 2 * total + 3 * n + 16;
                        for j in 0..n {
                            for kind in KINDS.iter() {
                                for persistent in [false, true] {
                                    for pending_before in [false, true] {
                                        let mut ff = FlushFaults::default();
                                        ff.errs = (0..j).map(|_| None).collect();
                                        ff.errs.push(Some(*kind));
                                        if persistent {
                                            ff.tail = Some(*kind);
                                        }
                                        if pending_before {
                                            ff.pending = (0..j).map(|_| false).collect();
                                            ff.pending.push(true);
                                        }
                                        let what = format!("[async sender, messages {:?}, flush of send #{} fails with {:?}{}{}]", msgs.values.iter().map(|v| v.show()).collect::<Vec<_>>(), j, kind, if persistent { " (and every later flush)" } else { "" }, if pending_before { ", preceded by a Pending" } else { "" });
                                        st.eval(1);
                                        let (rep, data, _, log) = match run_send(sh, true, &msgs, max_len, vec![], WOut::Accept(usize::MAX), &ff, budget) {
                                            Ok(x) => x,
                                            Err(p) => crate::vfail!("panic", "{}: {} {}", name, p, what),
                                        };
                                        if rep.stalled {
                                            crate::vfail!("stalled", "{}: a send future stopped making progress {}", name, what);
                                        }
                                        if let Err((k, m)) = judge_send(name, &msgs, &rep, &data, &log, &what) {
                                            crate::vfail!(k, "{}", m);
                                        }
                                        if !log.iter().any(|e| matches!(e, Event::FlushErr(_))) {
                                            crate::vfail!("harness-flush", "harness: the scripted flush fault was never reached {}", what);
                                        }
                                        // the sends before the fault, and after a one-shot fault, go through
                                        for (i, r) in rep.results.iter().enumerate() {
                                            if (i < j || (i > j && !persistent)) && *r != SendRes::Sent {
                                                crate::vfail!("unaffected-send-fails", "{}: send #{} = {:?} although only the flush of send #{} fails {}", name, i, r, j, what);
                                            }
                                        }
                                        st.nontrivial((name, which, "flush", j, format!("{:?}", kind), persistent, pending_before), || json!({"side": "flush", "shape": name, "send": j, "kind": format!("{:?}", kind), "persistent": persistent, "pending_before_fault": pending_before, "results": format!("{:?}", rep.results)}));
                                    }
                                }
                            }
                        }
                    }
                    // ---- reader (default buffer of 2 * max_len, and a buffer that just holds the largest message plus
                    // one alignment unit, so that the receiver has to compact before most reads)
                    let stream = msgs.stream();
                    let tight = model::round_up(msgs.largest, model::align(ty)) + model::align(ty);
                    for (chunk, capacity) in [(usize::MAX, None), (3, None), (1, None), (usize::MAX, Some(tight)), (5, Some(tight))] {
                        if chunk == 1 && total > 40 {
                            continue;
                        }
                        let budget = 2 * total + total + 16;
                        let mut probe = ScriptSource::new(stream.clone(), vec![], ROut::Deliver(chunk), budget);
                        crate::io_glue::IO_CAPACITY.with(|c| c.set(capacity));
                        let base = if asynchronous {
                            lib(|| sh.io_async_recv(&mut probe, max_len, msgs.values.len() + 3, 0, 8 * budget)).map(|x| x.events)
                        } else {
                            lib(|| sh.io_recv_blocking(&mut probe, max_len, msgs.values.len() + 3, 0)).map(|x| x.events)
                        };
                        crate::io_glue::IO_CAPACITY.with(|c| c.set(None));
                        let base = match base {
                            Ok(b) => b,
                            Err(p) => crate::vfail!("panic", "{}: fault-free {} receive panicked: {}", name, variant, p),
                        };
                        if let Err((k, m)) = check_received(name, &msgs.values, &base, true) {
                            crate::vfail!(k, "{} [fault-free {} receive, chunk {}]", m, variant, chunk as isize);
                        }
                        let base_calls = probe.calls;
                        let mut outcomes = vec![ROut::Eof];
                        outcomes.extend(KINDS.iter().map(|k| ROut::Err(*k)));
                        for call in 0..base_calls {
                            for o in &outcomes {
                                for persistent in [false, true] {
                                    let mut script: Vec<ROut> = (0..call).map(|_| ROut::Deliver(chunk)).collect();
                                    script.push(o.clone());
                                    let tail = if persistent { o.clone() } else { ROut::Deliver(chunk) };
                                    let what = format!("[{} receiver, messages {:?}, chunk {}, buffer capacity {:?}, fault {:?} at pipe call {}{}]", variant, msgs.values.iter().map(|v| v.show()).collect::<Vec<_>>(), chunk as isize, capacity, o, call, if persistent { " (persistent)" } else { "" });
                                    st.eval(1);
                                    let retries = 3;
                                    let (recvs, stalled) = match run_recv(sh, asynchronous, stream.clone(), max_len, msgs.values.len(), script, tail, budget, retries, capacity) {
                                        Ok(x) => x,
                                        Err(p) => crate::vfail!("panic", "{}: {} {}", name, p, what),
                                    };
                                    if stalled {
                                        crate::vfail!("stalled", "{}: a recv future stopped making progress {}", name, what);
                                    }
                                    let is_eof = *o == ROut::Eof;
                                    // transient = one-shot error (retry must recover everything)
                                    let transient = !persistent && !is_eof;
                                    if let Err((k, m)) = judge_recv(name, &msgs.values, &recvs, true, transient, &what) {
                                        crate::vfail!(k, "{}", m);
                                    }
                                    if is_eof && !matches!(recvs.last(), Some(RecvRes::Closed)) {
                                        crate::vfail!("eof-not-closed", "{}: end of stream is not reported as Closed: {:?} {}", name, recvs.last(), what);
                                    }
                                    st.nontrivial((name, which, variant, chunk, capacity, call, format!("{:?}", o), persistent, "r"), || json!({"side": "read", "shape": name, "variant": variant, "fault": format!("{:?}", o), "call": call, "persistent": persistent, "events": recvs.len()}));
                                }
                            }
                        }
                    }
                }
            }
        }
        // a message that takes several pipe calls even when the pipe accepts everything it is offered (should the
        // sender split large messages): [small, 1500 bytes, small], every write call x {Zero, Err} x one-shot / persistent
        if shard == 1 % nshards {
            if let Some(idx) = reg.by_name("FlatVec<u8, u32>") {
                let sh = reg.shapes[idx].as_ref();
                let ty = sh.ty();
                let small = Value::Vec(vec![Value::Scalar(1), Value::Scalar(2), Value::Scalar(3)]);
                let big = Value::Vec((0..1500u32).map(|i| Value::Scalar((i % 200) as u128)).collect());
                let values = vec![small.clone(), big, small];
                let mut images = vec![];
                let mut starts = vec![0usize];
                for v in &values {
                    let n = model::size_of(ty, v);
                    let img = model::encode(ty, v, n, 0, &mut model::Canonical).map_err(|_| Violation { key: "harness-c09".into(), msg: "harness: cannot encode".into() })?;
                    starts.push(starts.last().unwrap() + n);
                    images.push(img);
                }
                let msgs = Msgs { values: values.clone(), initial: values.clone(), post_ops: vec![vec![]; 3], raw: vec![None; 3], use_default: vec![false; 3], images, starts, largest: 1504, has_padding: true, upper_total: 1520 };
                let total = msgs.total();
                for asynchronous in [false, true] {
                    let variant = if asynchronous { "async" } else { "blocking" };
                    for chunk in [usize::MAX, 600] {
                        let budget = 2 * total + 64;
                        let (_, _, base_calls, _) = match run_send(sh, asynchronous, &msgs, 1504, vec![], WOut::Accept(chunk), &FlushFaults::default(), budget) {
                            Ok(x) => x,
                            Err(p) => crate::vfail!("panic", "FlatVec<u8, u32>: fault-free {} send of a 1504-byte message panicked: {}", variant, p),
                        };
                        for call in 0..base_calls {
                            for o in [WOut::Zero, WOut::Err(ErrorKind::Other), WOut::Err(ErrorKind::Interrupted)] {
                                for persistent in [false, true] {
                                    let mut script: Vec<WOut> = (0..call).map(|_| WOut::Accept(chunk)).collect();
                                    script.push(o.clone());
                                    let tail = if persistent { o.clone() } else { WOut::Accept(chunk) };
                                    let what = format!("[{} sender, messages of 8, 1504 and 8 bytes, pipe accepts {} bytes per call, fault {:?} at pipe call {}{}]", variant, chunk as isize, o, call, if persistent { " (persistent)" } else { "" });
                                    st.eval(1);
                                    let (rep, data, _, log) = match run_send(sh, asynchronous, &msgs, 1504, script, tail, &FlushFaults::default(), budget) {
                                        Ok(x) => x,
                                        Err(p) => crate::vfail!("panic", "FlatVec<u8, u32>: {} {}", p, what),
                                    };
                                    if rep.stalled {
                                        crate::vfail!("stalled", "FlatVec<u8, u32>: a send future stopped making progress {}", what);
                                    }
                                    if let Err((k, m)) = judge_send("FlatVec<u8, u32>", &msgs, &rep, &data, &log, &what) {
                                        crate::vfail!(k, "{}", m);
                                    }
                                    st.nontrivial(("big", variant, chunk, call, format!("{:?}", o), persistent), || json!({"side": "write", "shape": "FlatVec<u8, u32>", "message_bytes": 1504, "variant": variant, "fault": format!("{:?}", o), "call": call, "persistent": persistent}));
                                }
                            }
                        }
                    }
                }
            }
        }
        st.exhaustive_parts.push(format!("all single-fault scripts (each pipe call x each outcome x one-shot/persistent x blocking/async) for {} shapes", names.len()));
        Ok(())
    }
    fn run_case(&self, reg: &Registry, shape: usize, tape: &[u8], st: &mut Stats) -> CaseResult {
        let sh = reg.shapes[shape].as_ref();
        let ty = sh.ty();
        let name = ty.short();
        let mut t = Tape::new(tape);
        let asynchronous = t.bool();
        let write_side = t.bool();
        let msgs = gen_msgs(ty, &mut t, 5, 300);
        if msgs.values.is_empty() {
            st.label("no messages");
            return Ok(());
        }
        let max_len = msgs.largest + t.below(msgs.largest + 1);
        let total = msgs.total();
        let cuts = msgs.interesting_cuts(ty);
        let chunks = gen_chunks(total, &cuts, &mut t);
        let variant = if asynchronous { "async" } else { "blocking" };
        st.shapes_seen.insert(name.clone());
        let nfaults = 1 + t.below(4);
        let kind = |t: &mut Tape| KINDS[t.below(KINDS.len())];
        if write_side {
            let mut script = wouts(&chunks);
            let mut at_boundary_or_inside = false;
            for _ in 0..nfaults {
                let pos = t.below(script.len() + 1);
                let o = match t.below(4) {
                    0 => WOut::Zero,
                    _ => WOut::Err(kind(&mut t)),
                };
                script.insert(pos, o);
                at_boundary_or_inside |= pos < script.len() - 1;
            }
            if asynchronous {
                let np = t.below(5);
                for _ in 0..np {
                    let pos = t.below(script.len() + 1);
                    script.insert(pos, WOut::Pending);
                }
            }
            let tail = match t.below(4) {
                0 => WOut::Err(kind(&mut t)),
                1 => WOut::Zero,
                _ => WOut::Accept(usize::MAX),
            };
            // flush faults (async only: the blocking sender never flushes)
            let mut ff = FlushFaults::default();
            if asynchronous && t.chance(1, 3) {
                let nf = msgs.values.len() + 2;
                ff.errs = (0..nf).map(|_| if t.chance(1, 3) { Some(kind(&mut t)) } else { None }).collect();
                ff.pending = (0..nf).map(|_| t.chance(1, 4)).collect();
                if t.chance(1, 6) {
                    ff.tail = Some(kind(&mut t));
                }
            }
            let budget = 2 * total + script.len() + 3 * msgs.values.len() + 16;
            let what = format!("[{} sender, messages {:?}, script {:?}, then {:?}, flush faults {:?}]", variant, msgs.values.iter().map(|v| v.show()).collect::<Vec<_>>(), script, tail, ff);
            st.eval(1);
            let (rep, data, _, log) = match run_send(sh, asynchronous, &msgs, max_len, script.clone(), tail.clone(), &ff, budget) {
                Ok(x) => x,
                Err(p) => crate::vfail!("panic", "{}: {} {}", name, p, what),
            };
            if rep.stalled {
                crate::vfail!("stalled", "{}: a send future stopped making progress {}", name, what);
            }
            if let Err((k, m)) = judge_send(&name, &msgs, &rep, &data, &log, &what) {
                crate::vfail!(k, "{}", m);
            }
            if log.iter().any(|e| matches!(e, Event::FlushErr(_))) {
                st.label("a flush failed");
            }
            if at_boundary_or_inside {
                st.label("write faults");
                st.nontrivial((&name, &msgs.values, format!("{:?}{:?}", script, tail), variant), || json!({"side": "write", "shape": name, "variant": variant, "script": format!("{:?}", script), "tail": format!("{:?}", tail), "results": format!("{:?}", rep.results)}));
            }
        } else {
            let mut script = routs(&chunks);
            let mut any_persistent_like = false;
            for _ in 0..nfaults {
                let pos = t.below(script.len() + 1);
                script.insert(pos, ROut::Err(kind(&mut t)));
            }
            if asynchronous {
                let np = t.below(5);
                for _ in 0..np {
                    let pos = t.below(script.len() + 1);
                    script.insert(pos, ROut::Pending);
                }
            }
            let tail = match t.below(5) {
                0 => {
                    any_persistent_like = true;
                    ROut::Err(kind(&mut t))
                }
                _ => ROut::Deliver(usize::MAX),
            };
            // optional truncation of the stream (peer closes mid-message)
            let mut stream = msgs.stream();
            let truncated = t.chance(1, 4);
            if truncated {
                let k = t.below(stream.len().min(65535));
                stream.truncate(k);
            }
            let capacity = if t.chance(1, 2) {
                let a = model::align(ty);
                Some(model::round_up(msgs.largest + t.below(msgs.largest + 2 * a + 1), a).max(model::min_size(ty)))
            } else {
                None
            };
            let budget = 2 * total + script.len() + 16;
            let what = format!("[{} receiver, messages {:?}, script {:?}, then {:?}, stream cut to {} of {} bytes, buffer capacity {:?}]", variant, msgs.values.iter().map(|v| v.show()).collect::<Vec<_>>(), script, tail, stream.len(), total, capacity);
            st.eval(1);
            let retries = nfaults + 2;
            let (recvs, stalled) = match run_recv(sh, asynchronous, stream.clone(), max_len, msgs.values.len(), script.clone(), tail.clone(), budget, retries, capacity) {
                Ok(x) => x,
                Err(p) => crate::vfail!("panic", "{}: {} {}", name, p, what),
            };
            if stalled {
                crate::vfail!("stalled", "{}: a recv future stopped making progress {}", name, what);
            }
            if let Err((k, m)) = judge_recv(&name, &msgs.values, &recvs, !truncated, !any_persistent_like && !truncated, &what) {
                crate::vfail!(k, "{}", m);
            }
            if truncated && !any_persistent_like {
                // whole messages before the cut, then Closed
                let whole = msgs.starts.iter().skip(1).filter(|e| **e <= stream.len()).count();
                let got = recvs.iter().filter(|r| matches!(r, RecvRes::Msg { .. })).count();
                if got != whole || !matches!(recvs.last(), Some(RecvRes::Closed)) {
                    crate::vfail!("truncated-stream", "{}: stream cut mid-message: {} whole messages were available, {} received, last event {:?} {}", name, whole, got, recvs.last().map(|r| format!("{:?}", r).chars().take(60).collect::<String>()), what);
                }
            }
            st.label("read faults");
            st.nontrivial((&name, &msgs.values, format!("{:?}{:?}", script, tail), variant, stream.len()), || json!({"side": "read", "shape": name, "variant": variant, "script": format!("{:?}", script), "tail": format!("{:?}", tail), "stream_len": stream.len()}));
        }
        let _ = model::align(ty);
        Ok(())
    }
}
