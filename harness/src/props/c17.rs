//! C17 — portable composites have a platform-independent, padding-free image.

use super::common::*;
use crate::buf::Guarded;
use crate::desc::*;
use crate::model;
use crate::run::*;
use crate::tape::{gen_value, Fuel, Tape};
use crate::vfail;
use serde_json::json;

pub struct C17;

/// Independent reference serialiser for portable types: pure concatenation in
/// declaration order. `None` = byte not defined by the content (union slack of a sized enum).
pub fn serialize(ty: &Ty, v: &Value, out: &mut Vec<Option<u8>>) {
    fn put(out: &mut Vec<Option<u8>>, x: u128, size: usize, be: bool) {
        for i in 0..size {
            let k = if be { size - 1 - i } else { i };
            out.push(Some((x >> (8 * k)) as u8));
        }
    }
    fn len_be(l: LenTy) -> bool {
        l.big_endian()
    }
    match (ty, v) {
        (Ty::Unit, _) => {}
        (Ty::Prim(p), Value::Scalar(x)) => {
            assert_eq!(p.size(), 1, "harness: non-portable primitive");
            out.push(Some(*x as u8))
        }
        (Ty::Bool, Value::Bool(b)) => out.push(Some(*b as u8)),
        (Ty::PInt { size, be, .. }, Value::Scalar(x)) | (Ty::PFloat { size, be }, Value::Scalar(x)) => put(out, *x, *size, *be),
        (Ty::Array(t, _), Value::Array(xs)) => xs.iter().for_each(|x| serialize(t, x, out)),
        (Ty::Struct(s), Value::Struct(fs)) => s.fields.iter().zip(fs).for_each(|(t, x)| serialize(t, x, out)),
        (Ty::Enum(e), Value::Enum(i, fs)) => {
            assert_eq!(e.tag, TagTy::U8, "harness: portable enum with a wide tag");
            out.push(Some(*i as u8));
            let start = out.len();
            e.variants[*i].fields.iter().zip(fs).for_each(|(t, x)| serialize(t, x, out));
            if e.sized {
                // the payload area is as large as the largest variant
                let total = model::size(ty) - 1;
                while out.len() - start < total {
                    out.push(None);
                }
            }
        }
        (Ty::FlatVec(t, l), Value::Vec(xs)) => {
            put(out, xs.len() as u128, l.size(), len_be(*l));
            xs.iter().for_each(|x| serialize(t, x, out));
        }
        (Ty::FlatString(l), Value::Str(s)) => {
            put(out, s.len() as u128, l.size(), len_be(*l));
            out.extend(s.bytes().map(Some));
        }
        (Ty::FlexVec(t, l), Value::Flex(xs)) => {
            if xs.is_empty() {
                put(out, 0, l.size(), len_be(*l));
            }
            for (i, x) in xs.iter().enumerate() {
                let mut item = vec![];
                serialize(t, x, &mut item);
                let off = if i + 1 == xs.len() { l.max() } else { (l.size() + item.len()) as u128 };
                put(out, off, l.size(), len_be(*l));
                out.extend(item);
            }
        }
        _ => panic!("harness: serialize: value does not match type"),
    }
}

/// Path of the first FlexVec node with at least two items.
fn first_flex(ty: &Ty, v: &Value, path: &mut Vec<u16>) -> Option<Vec<u16>> {
    match (ty, v) {
        (Ty::FlexVec(_, _), Value::Flex(xs)) if xs.len() >= 2 => Some(path.clone()),
        (Ty::Struct(s), Value::Struct(fs)) => {
            for (i, (t, x)) in s.fields.iter().zip(fs).enumerate() {
                path.push(i as u16);
                let r = first_flex(t, x, path);
                path.pop();
                if r.is_some() {
                    return r;
                }
            }
            None
        }
        (Ty::Enum(e), Value::Enum(k, fs)) => {
            for (i, (t, x)) in e.variants[*k].fields.iter().zip(fs).enumerate() {
                path.push(i as u16);
                let r = first_flex(t, x, path);
                path.pop();
                if r.is_some() {
                    return r;
                }
            }
            None
        }
        _ => None,
    }
}

/// Path of the first FlexVec node (any length).
fn any_flex(ty: &Ty, v: &Value, path: &mut Vec<u16>) -> Option<Vec<u16>> {
    match (ty, v) {
        (Ty::FlexVec(_, _), Value::Flex(_)) => Some(path.clone()),
        (Ty::Struct(s), Value::Struct(fs)) => {
            for (i, (t, x)) in s.fields.iter().zip(fs).enumerate() {
                path.push(i as u16);
                let r = any_flex(t, x, path);
                path.pop();
                if r.is_some() {
                    return r;
                }
            }
            None
        }
        (Ty::Enum(e), Value::Enum(k, fs)) => {
            for (i, (t, x)) in e.variants[*k].fields.iter().zip(fs).enumerate() {
                path.push(i as u16);
                let r = any_flex(t, x, path);
                path.pop();
                if r.is_some() {
                    return r;
                }
            }
            None
        }
        _ => None,
    }
}

fn probe(feature: &str) -> Result<String, String> {
    let out = std::process::Command::new("cargo")
        .args(["run", "--quiet", "--offline", "--features", feature])
        .current_dir(format!("{}/probes/tagwidth", VERIF))
        .env("CARGO_TARGET_DIR", format!("{}/.build/probe", VERIF))
        .env("CARGO_NET_OFFLINE", "true")
        .output()
        .map_err(|e| format!("cannot run cargo: {}", e))?;
    let stdout = String::from_utf8_lossy(&out.stdout).to_string();
    let stderr = String::from_utf8_lossy(&out.stderr).to_string();
    if out.status.success() {
        Ok(stdout.trim().to_string())
    } else if stderr.contains("Portable") && stderr.contains("is not satisfied") {
        Ok("rejected".into())
    } else {
        Err(format!("probe build failed for another reason: {}", stderr.lines().take(12).collect::<Vec<_>>().join(" | ")))
    }
}

impl Property for C17 {
    fn id(&self) -> &'static str {
        "C17"
    }
    fn rule(&self) -> String {
        "case = (portable = true definition or container of portable items with a portable length type from the generated corpus, value, EVERY address offset 0..16 via a generated sample of two, two garbage prefills); \
         oracle: ALIGN == 1; as_bytes()[..size()] == an independent reference serialiser (pure concatenation, in declaration order, of tag, fields, length and elements in their fixed byte order; the only undefined bytes are the union slack after a shorter variant of a sized enum), hence no padding anywhere; from_bytes at odd addresses succeeds and reads the same value; the image does not depend on the buffer's previous contents or address; \
         compile probes (generated-program testing moved to compile time): portable = true definitions with a wide tag (u16 / u32), a native multi-byte field, a non-portable unsized tail or a native length type must be rejected by the compiler or still have ALIGN 1; \
         non-trivial = shape has >= 2 multi-byte scalars and the buffer address is odd; distinct by (shape, value, offset)"
            .into()
    }
    fn assumptions(&self) -> Vec<String> {
        vec!["only this host (little-endian x86-64) executes the code; platform independence is argued from ALIGN == 1 plus byte-exact agreement with an endianness-explicit serialiser".into()]
    }
    fn applicable(&self, ty: &Ty) -> bool {
        ty.is_portable() && !matches!(ty, Ty::Unit)
    }
    fn config(&self, tier: Tier) -> PropConfig {
        match tier {
            Tier::Quick => PropConfig { cases: 200000, max_tape: 200, shards: 12 },
            Tier::Thorough => PropConfig { cases: 3200000, max_tape: 300, shards: 16 },
        }
    }
    fn prelude(&self, reg: &Registry, shard: u32, nshards: u32, _tier: Tier, st: &mut Stats) -> CaseResult {
        if shard == 0 {
            for sh in &reg.shapes {
                if self.applicable(sh.ty()) {
                    st.eval(1);
                    let c = sh.consts();
                    if c.align != 1 {
                        vfail!("align", "{}: portable type has ALIGN = {}", sh.ty().short(), c.align);
                    }
                }
            }
            st.exhaustive_parts.push("ALIGN == 1 for every portable shape of the corpus".into());
        }
        if shard == nshards - 1 {
            for feature in ["tag_u16", "tag_u32", "np_sized_field", "np_struct_tail", "np_enum_tail", "np_native_len", "np_flex_native_len", "np_string_native_len", "np_flex_item", "np_array_item"] {
                st.eval(1);
                match probe(feature) {
                    Err(m) => vfail!("harness-probe", "harness: compile probe {}: {}", feature, m),
                    Ok(r) if r == "rejected" => st.label("compile probe: wide tag rejected by the compiler"),
                    Ok(r) => {
                        // compiled and claims Portable: must still have a portable image (align 1)
                        let ok = r.contains("align=1 ");
                        if !ok {
                            vfail!(
                                "non-portable-accepted",
                                "compile probe `{}` (probes/tagwidth/src/main.rs): a portable = true definition with a non-portable part compiles and implements Portable, but is not portable: {}",
                                feature,
                                r
                            );
                        }
                        st.label("compile probe: accepted with a portable image");
                    }
                }
            }
            st.exhaustive_parts.push("compile probes: portable enums with tag_type u16 / u32, portable structs / enums with a native field or array, a non-portable tail or FlexVec item, a native length type of a FlatVec / FlatString / FlexVec".into());
        }
        Ok(())
    }
    fn run_case(&self, reg: &Registry, shape: usize, tape: &[u8], st: &mut Stats) -> CaseResult {
        let sh = &reg.shapes[shape];
        let ty = sh.ty();
        let name = ty.short();
        let mut t = Tape::new(tape);
        let offs = [t.below(16), 1 + 2 * t.below(8)];
        let route = t.route(4);
        let extra = t.below(12);
        let fills = [t.u8(), t.u8() | 1];
        let mut fuel = Fuel::small();
        let v = gen_value(ty, &mut t, &mut fuel);
        let mut want = vec![];
        serialize(ty, &v, &mut want);
        let size_ref = model::size_of(ty, &v);
        if want.len() != size_ref && !(ty.is_sized()) {
            // the reference model's extent and the serialiser must agree (self-check of the harness)
            vfail!("harness-serialize", "harness: serialiser gives {} bytes, layout model {} for {} {}", want.len(), size_ref, name, v.show());
        }
        let n = size_ref + extra;
        if model::encode(ty, &v, size_ref, 0, &mut model::Canonical).is_err() {
            // e.g. a sealed FlexVec item whose stride does not fit the offset type: the content has no
            // encoding at all, the emplacer must refuse it (C03 / C15 check that it does)
            st.label("skipped: the reference says the value is not representable");
            return Ok(());
        }
        st.shapes_seen.insert(name.clone());
        let mut images: Vec<Vec<u8>> = vec![];
        for (k, off) in offs.iter().enumerate() {
            let mut buf = Guarded::new(n, *off, k == 1);
            buf.slice().fill(fills[k]);
            let mut out = None;
            st.eval(1);
            let r = lib(|| sh.new_in_place(buf.slice(), &v, &route, &mut |live| out = Some(live.read())));
            let what = format!("{}: {} emplaced at address offset {}", name, v.show(), off);
            match r {
                Err(p) => vfail!("panic", "{} panicked: {}", what, p),
                Ok(Err(e)) => vfail!("refused", "{}: refused with {} (a portable type can be placed at any address)", what, show_err(&e)),
                Ok(Ok(())) => {}
            }
            if let Err(m) = buf.check() {
                vfail!("canary", "{}: {}", what, m);
            }
            let o = out.unwrap();
            if let Err(m) = check_readout(&o, &v, n) {
                vfail!("readback", "{}: {}", what, m);
            }
            if o.size != want.len() && !ty.is_sized() || o.size > n {
                vfail!("size", "{}: size() = {} but the serialisation has {} bytes", what, o.size, want.len());
            }
            let got = &buf.as_ref()[..o.size.min(n)];
            for (i, w) in want.iter().enumerate() {
                if let Some(w) = w {
                    if got.get(i) != Some(w) {
                        vfail!(
                            "image",
                            "{}: byte {} of the image is {:?}, the reference serialisation has {:#04x}\n got {}",
                            what,
                            i,
                            got.get(i),
                            w,
                            hex(got)
                        );
                    }
                }
            }
            // map again at this (odd) address
            st.eval(1);
            match lib(|| sh.from_bytes(buf.as_ref())) {
                Err(p) => vfail!("panic", "{}: from_bytes panicked: {}", what, p),
                Ok(Err(e)) => vfail!("remap", "{}: from_bytes at this address fails: {}", what, show_err(&e)),
                Ok(Ok(o2)) => {
                    if o2.value != v {
                        vfail!("remap", "{}: re-mapped value is {}", what, o2.value.show());
                    }
                }
            }
            images.push(want.iter().enumerate().map(|(i, w)| if w.is_some() { got[i] } else { 0 }).collect());
            let multibyte = {
                let mut c = 0;
                fn count(t: &Ty, c: &mut usize) {
                    match t {
                        Ty::PInt { .. } | Ty::PFloat { .. } => *c += 1,
                        Ty::FlatVec(e, l) | Ty::FlexVec(e, l) => {
                            if l.size() > 1 {
                                *c += 1;
                            }
                            count(e, c)
                        }
                        Ty::FlatString(l) => {
                            if l.size() > 1 {
                                *c += 1
                            }
                        }
                        Ty::Array(e, _) => count(e, c),
                        Ty::Struct(s) => s.fields.iter().for_each(|f| count(f, c)),
                        Ty::Enum(e) => e.variants.iter().flat_map(|v| v.fields.iter()).for_each(|f| count(f, c)),
                        _ => {}
                    }
                }
                count(ty, &mut c);
                c
            };
            if multibyte >= 2 && off % 2 == 1 {
                st.label("non-trivial: odd address, >= 2 multi-byte fields");
                st.nontrivial((&name, &v, off), || json!({"shape": name, "value": v.show(), "offset": off, "image": hex(got)}));
            } else {
                st.label("trivial");
            }
        }
        // route B: the same value built through the mutators (pushes) must have the same image
        if let Some(fpath) = first_flex(ty, &v, &mut vec![]) {
            let (fty, fval) = super::history::resolve(ty, &v, &fpath).unwrap();
            let items = fval.items().to_vec();
            let _ = fty;
            let mut base = v.clone();
            *super::history::resolve_mut(&mut base, &fpath) = Value::Flex(vec![]);
            let mut buf = Guarded::new(n, offs[1], false);
            buf.slice().fill(fills[0]);
            let mut out = None;
            let mut push_err = None;
            st.eval(1);
            let r = lib(|| {
                sh.new_in_place(buf.slice(), &base, &route, &mut |live| {
                    for it in &items {
                        match live.mutate(&fpath, &crate::glue::Op::FPush(it.clone(), vec![])) {
                            crate::glue::OpOut::Done => {}
                            other => {
                                push_err = Some(format!("{:?}", other));
                                return;
                            }
                        }
                    }
                    out = Some(live.read());
                })
            });
            let what = format!("{}: {} built by pushing the {} items of the FlexVec at {:?} one by one into {} bytes", name, v.show(), items.len(), fpath, n);
            match r {
                Err(p) => vfail!("panic", "{} panicked: {}", what, p),
                Ok(Err(e)) => vfail!("refused", "{}: emplacing the base value failed: {}", what, show_err(&e)),
                Ok(Ok(())) => {}
            }
            if let Some(e) = push_err {
                vfail!("push-refused", "{}: a push failed ({}) although the serialisation of the whole value fits", what, e);
            }
            let o = out.unwrap();
            if o.value != v {
                vfail!("readback", "{}: reads back {}", what, o.value.show());
            }
            if o.size != want.len() && !ty.is_sized() {
                vfail!("size", "{}: size() = {} but the serialisation has {} bytes (padding between items?)", what, o.size, want.len());
            }
            let got = &buf.as_ref()[..o.size.min(n)];
            for (i, w) in want.iter().enumerate() {
                if let Some(w) = w {
                    if got.get(i) != Some(w) {
                        vfail!("image", "{}: byte {} of the image is {:?}, the reference serialisation has {:#04x}\n got {}", what, i, got.get(i), w, hex(got));
                    }
                }
            }
            st.label("route B: built by pushes");
        }
        // route C: the same value reached by shrinking (one extra item pushed, then pop / truncate)
        if let Some(fpath) = any_flex(ty, &v, &mut vec![]) {
            let (fty, fval) = super::history::resolve(ty, &v, &fpath).unwrap();
            let items = fval.items().to_vec();
            let item_ty = match fty {
                Ty::FlexVec(t, _) => (**t).clone(),
                _ => unreachable!(),
            };
            let extra_item = items.last().cloned().unwrap_or_else(|| super::common::minimal_values(&item_ty).remove(0));
            let mut bigger = v.clone();
            super::history::resolve_mut(&mut bigger, &fpath).items_mut().push(extra_item.clone());
            let n2 = model::size_of(ty, &bigger) + extra;
            if model::encode(ty, &bigger, n2, 0, &mut model::Canonical).is_ok() {
                let mut buf = Guarded::new(n2, offs[0], true);
                buf.slice().fill(fills[1]);
                let mut out = None;
                let use_pop = route.first().copied().unwrap_or(0) % 2 == 0;
                st.eval(1);
                let r = lib(|| {
                    sh.new_in_place(buf.slice(), &bigger, &route, &mut |live| {
                        let op = if use_pop { crate::glue::Op::FPop } else { crate::glue::Op::FTruncate(items.len()) };
                        let _ = live.mutate(&fpath, &op);
                        out = Some(live.read());
                    })
                });
                let what = format!("{}: {} reached by emplacing one more item into the FlexVec at {:?} and then {}", name, v.show(), fpath, if use_pop { "pop()" } else { "truncate(len - 1)" });
                match r {
                    Err(p) => vfail!("panic", "{} panicked: {}", what, p),
                    Ok(Err(e)) => vfail!("refused", "{}: emplacing failed: {}", what, show_err(&e)),
                    Ok(Ok(())) => {}
                }
                let o = out.unwrap();
                if o.value != v {
                    vfail!("readback", "{}: reads back {}", what, o.value.show());
                }
                if o.size != want.len() && !ty.is_sized() {
                    vfail!("size", "{}: size() = {} but the serialisation of this content has {} bytes (the image is not a function of the content)", what, o.size, want.len());
                }
                let got = &buf.as_ref()[..o.size.min(n2)];
                for (i, w) in want.iter().enumerate() {
                    if let Some(w) = w {
                        if got.get(i) != Some(w) {
                            vfail!("image", "{}: byte {} of the image is {:?}, the reference serialisation has {:#04x}\n got {}", what, i, got.get(i), w, hex(got));
                        }
                    }
                }
                st.label("route C: reached by shrinking");
            }
        }
        if images[0] != images[1] {
            vfail!("address-dependence", "{}: the image of {} differs between address offsets {:?} / prefills", name, v.show(), offs);
        }
        Ok(())
    }
}
