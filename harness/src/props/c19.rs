//! C19 — content errors are reported at the byte that is wrong.

use super::c01::cut;
use super::common::*;
use super::images::*;
use crate::buf::Guarded;
use crate::desc::*;
use crate::model::{self, FieldKind};
use crate::run::*;
use crate::tape::{Fuel, Tape};
use crate::vfail;
use serde_json::json;

pub struct C19;

impl Property for C19 {
    fn id(&self) -> &'static str {
        "C19"
    }
    fn rule(&self) -> String {
        "case = (shape containing a constrained leaf: Bool, enum tag or FlatString; valid reference-encoded image; ONE constrained byte chosen from the encoder's field list; corrupting value: Bool -> 2..=255, tag -> out-of-range value of the tag width, UTF-8 -> 0xFF / lone continuation byte / lead byte without continuation); the corruption is the only defect of the image; \
         oracle: validate returns Err with kind InvalidData (Bool, UTF-8) or InvalidEnumTag (tag) and pos inside the offending unit measured from the start of the validated slice: the Bool byte, any byte of the tag, or from the start of the character containing the corrupted byte up to that byte; \
         non-trivial = the leaf is nested >= 2 levels deep or in a container element with index >= 1; distinct by (shape, image, corrupted offset)"
            .into()
    }
    fn assumptions(&self) -> Vec<String> {
        vec!["the reference decoder must agree that the corrupted image has exactly this one defect (checked on every case)".into()]
    }
    fn applicable(&self, ty: &Ty) -> bool {
        ty.any(|t| matches!(t, Ty::Bool | Ty::Enum(_) | Ty::FlatString(_)))
    }
    fn config(&self, tier: Tier) -> PropConfig {
        match tier {
            Tier::Quick => PropConfig { cases: 400000, max_tape: 200, shards: 12 },
            Tier::Thorough => PropConfig { cases: 6400000, max_tape: 400, shards: 16 },
        }
    }
    fn run_case(&self, reg: &Registry, shape: usize, tape: &[u8], st: &mut Stats) -> CaseResult {
        let sh = &reg.shapes[shape];
        let ty = sh.ty();
        let name = ty.short();
        let a = model::align(ty);
        let mut t = Tape::new(tape);
        let pick = t.u16() as usize;
        let how = t.u8();
        let val = t.u128(4);
        let Some((v, img)) = valid_image(ty, &mut t, Fuel::small(), a + 5) else {
            return Ok(());
        };
        let cands: Vec<_> = img
            .fields
            .iter()
            .filter(|f| match f.kind {
                FieldKind::Bool | FieldKind::Tag { .. } => true,
                FieldKind::Utf8 => f.size > 0,
                _ => false,
            })
            .collect();
        if cands.is_empty() {
            st.label("no constrained leaf in this value");
            return Ok(());
        }
        let f = cands[(pick * cands.len()) >> 16];
        let mut bytes = img.bytes.clone();
        let (lo, hi, want_kind, desc) = match &f.kind {
            FieldKind::Bool => {
                let x = 2 + (val % 254) as u8;
                bytes[f.off] = x;
                (f.off, f.off + 1, "InvalidData", format!("Bool byte {} := {:#04x}", f.off, x))
            }
            FieldKind::Tag { variants } => {
                let width_max: u128 = (1u128 << (8 * f.size)) - 1;
                let span = width_max - *variants as u128 + 1;
                let x = match how % 4 {
                    0 => *variants as u128,
                    1 => width_max,
                    _ => *variants as u128 + val % span,
                };
                model::put_uint(&mut bytes[f.off..f.off + f.size], x, f.be);
                (f.off, f.off + f.size, "InvalidEnumTag", format!("tag at {} := {}", f.off, x))
            }
            FieldKind::Utf8 => {
                let s = std::str::from_utf8(&img.bytes[f.off..f.off + f.size]).unwrap();
                // char boundaries
                let starts: Vec<usize> = s.char_indices().map(|(i, _)| i).collect();
                let ci = (val as usize) % starts.len();
                let cstart = starts[ci];
                let clen = s[cstart..].chars().next().unwrap().len_utf8();
                let (p, x) = match how % 4 {
                    // 0xFF anywhere inside the character
                    0 => (cstart + (val as usize >> 8) % clen, 0xffu8),
                    // lone continuation byte at the start of a character
                    1 => (cstart, 0x80u8),
                    // lead byte that lacks its continuation bytes
                    2 => (cstart, 0xE2u8),
                    // the LAST character gets a lead byte announcing one byte more than the string has left:
                    // an incomplete sequence at the very end of the contents
                    _ => {
                        let ls = *starts.last().unwrap();
                        let ll = s.len() - ls;
                        match ll {
                            1 => (ls, 0xC3u8),
                            2 => (ls, 0xE2u8),
                            3 => (ls, 0xF1u8),
                            _ => (ls, 0xffu8),
                        }
                    }
                };
                let (cstart, clen) = if how % 4 == 3 { (p, s.len() - p) } else { (cstart, clen) };
                // "lead without continuation" is only a defect if what follows is not a continuation byte
                let (p, x) = if how % 4 == 2 && clen > 1 { (cstart, 0xffu8) } else { (p, x) };
                bytes[f.off + p] = x;
                (f.off + cstart, f.off + p + 1, "InvalidData", format!("string byte {} := {:#04x}", f.off + p, x))
            }
            _ => unreachable!(),
        };
        // the reference must see exactly this defect
        match model::decode(ty, &bytes, 0) {
            Err(r) if r.lo <= hi && r.hi >= lo && matches!(r.kind, model::RejKind::BadBool | model::RejKind::BadTag | model::RejKind::BadUtf8) => {}
            other => {
                // e.g. corrupting a tag inside a union slot of an inactive variant cannot happen (fields are only recorded for live data)
                vfail!(
                    "harness-corruption",
                    "harness: corruption {} of {} {} is not seen as the single content defect by the reference: {:?}",
                    desc,
                    name,
                    v.show(),
                    other.map(|d| d.value.show())
                );
            }
        }
        st.shapes_seen.insert(name.clone());
        let mut buf = Guarded::new_aligned(bytes.len(), a, 0, t.bool());
        buf.fill(&bytes);
        st.eval(1);
        let r = match lib(|| sh.validate(buf.as_ref())) {
            Ok(r) => r,
            Err(p) => vfail!("panic", "{}: validate({}) panicked: {}", name, cut(&bytes), p),
        };
        match r {
            Ok(()) => vfail!("accepted", "{}: image of {} with {} is accepted", name, v.show(), desc),
            Err(e) => {
                if e.kind != want_kind {
                    vfail!(
                        "wrong-kind",
                        "{}: image {} of {} with {}: rejected with {} but the defect is {}",
                        name,
                        cut(&bytes),
                        v.show(),
                        desc,
                        show_err(&e),
                        want_kind
                    );
                }
                if e.pos < lo || e.pos >= hi {
                    vfail!(
                        "wrong-pos",
                        "{}: image {} of {} with {}: error position {} but the offending bytes are [{}, {})",
                        name,
                        cut(&bytes),
                        v.show(),
                        desc,
                        e.pos,
                        lo,
                        hi
                    );
                }
            }
        }
        st.label(match f.kind {
            FieldKind::Bool => "bool",
            FieldKind::Tag { .. } => "tag",
            _ => "utf8",
        });
        if f.depth >= 2 || f.max_index >= 1 {
            st.label("nested");
            st.nontrivial((&name, &bytes, lo), || {
                json!({"shape": name, "value": v.show(), "corruption": desc, "depth": f.depth, "max_index": f.max_index, "expected_pos": [lo, hi]})
            });
        } else {
            st.label("shallow");
        }
        Ok(())
    }
}
