//! C15 — emplacement into any buffer: right error or correct success.

use super::common::*;
use crate::buf::Guarded;
use crate::desc::default_value;
use crate::model::{self, Canonical};
use crate::run::*;
use crate::tape::{gen_value, Fuel, Tape};
use crate::vfail;
use serde_json::json;

pub struct C15;

impl Property for C15 {
    fn id(&self) -> &'static str {
        "C15"
    }
    fn rule(&self) -> String {
        "case = (shape, value, route); for EVERY buffer length 0 ..= reference size + 2*ALIGN + 4 and EVERY address offset 0..ALIGN: new_in_place, default_in_place (when the value is the default), FlatWrap::new_in_place/default_in_place over &mut [u8], Vec<u8> (ALIGN 1) and AlignedBytes; \
         oracle: never panics, canaries intact; misaligned => Err(BadAlign) (InsufficientSize also accepted when the buffer is too small as well); aligned and len < max(MIN_SIZE, extent) => Err(InsufficientSize); aligned and len >= reference size => Ok with read-back == value, validate Ok, content-defined bytes == reference encoding; in the window extent <= len < size either verdict, but an Ok must satisfy the view invariants; \
         non-trivial = len within ALIGN of a threshold (MIN_SIZE, extent, reference size); distinct by (shape, value, len, offset)"
            .into()
    }
    fn assumptions(&self) -> Vec<String> {
        vec!["values whose FlexVec strides are not representable in the offset type are only required to be refused without panic".into()]
    }
    fn config(&self, tier: Tier) -> PropConfig {
        match tier {
            Tier::Quick => PropConfig { cases: 10000, max_tape: 120, shards: 12 },
            Tier::Thorough => PropConfig { cases: 160000, max_tape: 200, shards: 16 },
        }
    }
    fn prelude(&self, reg: &Registry, shard: u32, nshards: u32, _tier: Tier, st: &mut Stats) -> CaseResult {
        // deterministic boundary values: a sealed FlexVec item whose offset is just below / at / above
        // the reserved end marker of a one-byte offset type
        let mut job = 0;
        for name in ["FlexVec<FlatVec<u8, u8>, u8>", "FlexVec<FlatString<u8>, u8>"] {
            let Some(idx) = reg.by_name(name) else { continue };
            let sh = reg.shapes[idx].as_ref();
            for k in 250usize..=254 {
                job += 1;
                if job % nshards != shard {
                    continue;
                }
                let item = |n: usize| match sh.ty() {
                    crate::desc::Ty::FlexVec(t, _) if matches!(**t, crate::desc::Ty::FlatString(_)) => crate::desc::Value::Str("b".repeat(n)),
                    _ => crate::desc::Value::Vec(vec![crate::desc::Value::Scalar(3); n]),
                };
                let v = crate::desc::Value::Flex(vec![item(k), item(1)]);
                enumerate(sh, &v, &[], false, st)?;
            }
        }
        st.exhaustive_parts.push("u8 offset types: first item of 250..=254 elements followed by a second item, every buffer length and route".into());
        // the same boundary for 16-bit offset types (native and portable): a first item whose sealing offset is
        // just below / at / above 65535, buffers around the reference size and comfortably above it
        for name in ["FlexVec<FlatString<le::U32>, le::U16>", "FlexVec<FlatString<u32>, u16>", "FlexVec<FlatVec<u8, be::U32>, be::U16>"] {
            let Some(idx) = reg.by_name(name) else { continue };
            let sh = reg.shapes[idx].as_ref();
            let a = model::align(sh.ty());
            for k in [65_500usize, 65_523, 65_524, 65_525, 65_526, 65_527, 65_528, 65_529, 65_530, 65_531, 65_532, 65_536, 65_600] {
                job += 1;
                if job % nshards != shard {
                    continue;
                }
                let item = |n: usize| match sh.ty() {
                    crate::desc::Ty::FlexVec(t, _) if matches!(**t, crate::desc::Ty::FlatString(_)) => crate::desc::Value::Str("b".repeat(n)),
                    _ => crate::desc::Value::Vec(vec![crate::desc::Value::Scalar(3); n]),
                };
                let v = crate::desc::Value::Flex(vec![item(k), item(2)]);
                let size_ref = model::size_of(sh.ty(), &v);
                let lens = vec![size_ref - a, size_ref, size_ref + a, 66_400, 70_000];
                for route in [&[][..], &[0xF5, 0xF5, 0xF5][..]] {
                    enumerate_lens(sh, &v, route, false, Some(lens.clone()), st)?;
                }
            }
        }
        st.exhaustive_parts.push("16-bit offset types (u16, le::U16, be::U16): first item with a sealing offset of 65512..65612 followed by a second item, buffers around and above the reference size".into());
        // iterators that never end (size_hint lower bound usize::MAX): no buffer holds their content, every
        // length must be refused with InsufficientSize and nothing may overflow on the way
        if shard == 0 {
            use flatty::{flat_vec, flex, prelude::*, vec, FlatVec, FlexVec};
            for len in 0usize..=72 {
                let mut buf = Guarded::new_aligned(len, 8, 0, len % 2 == 0);
                macro_rules! endless {
                    ($ty:ty, $empl:expr, $what:expr) => {{
                        buf.slice().fill(0xEE);
                        st.eval(1);
                        match lib(|| <$ty>::new_in_place(buf.slice(), $empl).map(|_| ()).map_err(|e| format!("{:?}", e.kind))) {
                            Err(p) => vfail!("panic", "{} into {} bytes panicked: {}", $what, len, p),
                            Ok(Ok(())) => vfail!("accepts-too-small", "{} into {} bytes: accepted", $what, len),
                            Ok(Err(k)) if k != "InsufficientSize" => vfail!("wrong-error", "{} into {} bytes: refused with {}", $what, len, k),
                            Ok(Err(_)) => {}
                        }
                        if let Err(m) = buf.check() {
                            vfail!("canary", "{} into {} bytes: {}", $what, len, m);
                        }
                        st.nontrivial(($what, len), || json!({"emplacer": $what, "len": len}));
                    }};
                }
                endless!(FlatVec<u8, u16>, vec::FromIterator(0u8..), "FlatVec<u8, u16> from vec::FromIterator(0u8..)");
                endless!(FlatVec<u32, u8>, vec::FromIterator(std::iter::repeat(7u32)), "FlatVec<u32, u8> from vec::FromIterator(repeat(7))");
                endless!(
                    FlexVec<FlatVec<u8, u8>, u16>,
                    flex::FromIterator::new(std::iter::repeat_with(|| flat_vec![1u8, 2])),
                    "FlexVec<FlatVec<u8, u8>, u16> from flex::FromIterator::new(repeat_with(..))"
                );
                endless!(FlexVec<u32, u8>, flex::FromIterator::new(std::iter::repeat(9u32)), "FlexVec<u32, u8> from flex::FromIterator::new(repeat(9))");
            }
            st.exhaustive_parts.push("endless iterators into every buffer length 0..=72".into());
        }
        Ok(())
    }
    fn run_case(&self, reg: &Registry, shape: usize, tape: &[u8], st: &mut Stats) -> CaseResult {
        let sh = &reg.shapes[shape];
        let ty = sh.ty();
        let mut t = Tape::new(tape);
        let route = t.route(4);
        let use_default = sh.consts().has_default && t.chance(1, 4);
        let mut fuel = Fuel::small();
        fuel.max_len = 8;
        if t.chance(1, 10) {
            // lengths in the neighbourhood of u8::MAX (length / offset type limits)
            fuel = Fuel::big();
            // half of them may exceed the length type's maximum: no buffer is large enough for those
            fuel.overlong = route.last().copied().unwrap_or(0) & 1 == 1;
        }
        let v = if use_default { default_value(ty) } else { gen_value(ty, &mut t, &mut fuel) };
        enumerate(sh.as_ref(), &v, &route, use_default, st)
    }
}

/// Every buffer length x address offset x route for one (shape, value).
fn enumerate(sh: &dyn crate::glue::DynShape, v: &crate::desc::Value, route: &[u8], use_default: bool, st: &mut Stats) -> CaseResult {
    enumerate_lens(sh, v, route, use_default, None, st)
}

/// `lens`: the buffer lengths to try (default: every length 0 ..= reference size + 2*ALIGN + 4).
fn enumerate_lens(sh: &dyn crate::glue::DynShape, v: &crate::desc::Value, route: &[u8], use_default: bool, lens: Option<Vec<usize>>, st: &mut Stats) -> CaseResult {
    {
        let ty = sh.ty();
        let name = ty.short();
        let a = model::align(ty);
        let v = v.clone();
        let route = route.to_vec();
        let size_ref = model::size_of(ty, &v);
        let extent = model::extent(ty, &v);
        let ms = model::min_size(ty);
        let representable = model::encode(ty, &v, size_ref + 64, 0, &mut Canonical).is_ok();
        st.shapes_seen.insert(name.clone());
        let max_len = size_ref + 2 * a + 4;
        if max_len > 1200 && lens.is_none() {
            st.label("skipped: too large for the exhaustive length loop");
            return Ok(());
        }
        let lens: Vec<usize> = lens.unwrap_or_else(|| (0..=max_len).collect());
        for len in lens {
            for off in 0..a {
                // routes: 0 new_in_place, 1 default_in_place, 2.. FlatWrap kinds
                let nroutes = if use_default { 6 } else { 4 };
                for r in 0..nroutes {
                    if (r == 3 || r == 5) && off != 0 {
                        continue; // owned buffers are allocated aligned
                    }
                    let mut buf = Guarded::new_aligned(len, a.max(1), off, (len + r) % 3 == 0);
                    buf.slice().fill(0xEE);
                    let mut out = None;
                    st.eval(1);
                    let res = lib(|| match r {
                        0 => sh.new_in_place(buf.slice(), &v, &route, &mut |live| out = Some(live.read())),
                        1 => match sh.wrap_new_in_place(0, buf.slice(), Some(&v), &route) {
                            Some(Ok(o)) => {
                                out = Some(o);
                                Ok(())
                            }
                            Some(Err(e)) => Err(e),
                            None => unreachable!(),
                        },
                        2 | 3 => match sh.wrap_new_in_place(if r == 2 { 1 } else { 2 }, buf.slice(), Some(&v), &route) {
                            Some(Ok(o)) => {
                                out = Some(o);
                                Ok(())
                            }
                            Some(Err(e)) => Err(e),
                            None => Err(crate::glue::FErr {
                                kind: "n/a".into(),
                                pos: 0,
                            }),
                        },
                        4 => sh.default_in_place(buf.slice(), &mut |live| out = Some(live.read())).unwrap(),
                        _ => match sh.wrap_new_in_place(2, buf.slice(), None, &route) {
                            Some(Ok(o)) => {
                                out = Some(o);
                                Ok(())
                            }
                            Some(Err(e)) => Err(e),
                            None => Err(crate::glue::FErr {
                                kind: "n/a".into(),
                                pos: 0,
                            }),
                        },
                    });
                    let what = format!("{}: route {} emplacing {} into {} bytes at address offset {}", name, r, v.show(), len, off);
                    let res = match res {
                        Ok(x) => x,
                        Err(p) => vfail!("panic", "{} panicked: {}", what, p),
                    };
                    if let Err(e) = &res {
                        if e.kind == "n/a" {
                            continue;
                        }
                    }
                    if let Err(m) = buf.check() {
                        vfail!("canary", "{}: {}", what, m);
                    }
                    // route 2 (Vec<u8>) copies into an align-1 heap buffer: only for ALIGN == 1, so off is irrelevant there
                    let misaligned = off % a != 0 && r != 2;
                    let too_small = len < ms.max(extent);
                    match &res {
                        Err(e) => {
                            if misaligned {
                                if !(e.kind == "BadAlign" || (e.kind == "InsufficientSize" && len < size_ref)) {
                                    vfail!("wrong-error", "{}: misaligned buffer refused with {}", what, show_err(e));
                                }
                                st.label("misaligned: refused");
                            } else if len >= size_ref && representable {
                                vfail!("refused", "{}: refused with {} although the reference size is {}", what, show_err(e), size_ref);
                            } else if representable && e.kind != "InsufficientSize" {
                                vfail!("wrong-error", "{}: too small buffer (reference size {}) refused with {}", what, size_ref, show_err(e));
                            } else {
                                st.label("too small: refused");
                            }
                        }
                        Ok(()) => {
                            if misaligned {
                                vfail!("accepts-misaligned", "{}: accepted", what);
                            }
                            if too_small {
                                vfail!("accepts-too-small", "{}: accepted although the content needs {} bytes (MIN_SIZE {})", what, extent, ms);
                            }
                            if !representable {
                                vfail!("accepts-unrepresentable", "{}: accepted although the reference says the value cannot be encoded", what);
                            }
                            let o = out.as_ref().unwrap();
                            if let Err(m) = check_readout(o, &v, len) {
                                vfail!("readback", "{}: {}", what, m);
                            }
                            if o.size > len {
                                vfail!("size", "{}: size() = {} exceeds the buffer", what, o.size);
                            }
                            if r != 2 && r != 3 && r != 5 {
                                // in-place routes: bytes are in our buffer
                                let img = model::encode(ty, &v, len, 0, &mut Canonical);
                                if let Ok(img) = img {
                                    let got = buf.as_ref();
                                    for i in 0..len {
                                        if img.mask[i] && got[i] != img.bytes[i] {
                                            vfail!("image", "{}: byte {} is {:#04x}, documented encoding has {:#04x}", what, i, got[i], img.bytes[i]);
                                        }
                                    }
                                }
                                match lib(|| sh.validate(buf.as_ref())) {
                                    Ok(Ok(())) => {}
                                    Ok(Err(e)) => vfail!("revalidate", "{}: accepted, but the buffer then fails validation: {}", what, show_err(&e)),
                                    Err(p) => vfail!("panic", "{}: validate afterwards panicked: {}", what, p),
                                }
                            }
                            st.label(if len < size_ref { "padding window: accepted" } else { "fits: accepted" });
                        }
                    }
                    let near = |x: usize| len + a >= x && len <= x + a;
                    if near(ms) || near(extent) || near(size_ref) {
                        st.nontrivial((&name, &v, len, off, r), || {
                            json!({"shape": name, "value": v.show(), "len": len, "offset": off, "route": r,
                                "thresholds": {"min_size": ms, "extent": extent, "size": size_ref},
                                "result": match &res { Ok(()) => "Ok".to_string(), Err(e) => show_err(e) }})
                        });
                    }
                }
            }
        }
        Ok(())
    }
}
