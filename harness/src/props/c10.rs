//! C10 — receiver fed arbitrary bytes never panics or hangs; yields only valid messages.

use super::c01::cut;
use super::io_common::*;
use crate::io_glue::RecvRes;
use crate::model::{self, FieldKind};
use crate::pipes::*;
use crate::run::*;
use crate::tape::{skew_byte, Tape};
use serde_json::json;

pub struct C10;

impl Property for C10 {
    fn id(&self) -> &'static str {
        "C10"
    }
    fn rule(&self) -> String {
        "case = (message shape, byte stream, read chunking, max_msg_len, blocking or async receiver); streams: random bytes from a skewed alphabet, valid streams with point mutations, valid streams truncated at a generated position, valid streams in which one length / offset field is replaced by a boundary value (announcing more than max_msg_len), valid streams in which exactly ONE content byte (Bool, tag, UTF-8) of one message is corrupted; \
         oracle: every recv returns (no panic, also not when the guard is dropped; pipe calls within budget; async futures never return Pending without a wake-up) one of message / parse error / read error / Closed; the harness frames the stream independently: for every message handed out the reference decoder must accept exactly the window [consumed, delivered) with the same value and size() = reference size <= window, Closed only when the source is exhausted and the unconsumed rest is not a complete well-formed message; for the single-content-byte corruption class the outcome after the preceding whole messages must be a parse error (not Closed, buffer exhaustion or a message); \
         non-trivial = the stream passes the first message's MIN_SIZE gate and contains a header field with a non-zero value; distinct by (shape, stream, chunking, max_msg_len)"
            .into()
    }
    fn assumptions(&self) -> Vec<String> {
        vec!["'complete but malformed in content' is restricted to the three kinds C19 names (Bool, enum tag, UTF-8), so the oracle never demands a parse error where 'need more bytes' is a legitimate reading".into()]
    }
    fn applicable_shape(&self, sh: &dyn crate::glue::DynShape) -> bool {
        sh.is_message_shape()
    }
    fn config(&self, tier: Tier) -> PropConfig {
        match tier {
            Tier::Quick => PropConfig { cases: 300000, max_tape: 300, shards: 12 },
            Tier::Thorough => PropConfig { cases: 4800000, max_tape: 500, shards: 16 },
        }
    }
    fn run_case(&self, reg: &Registry, shape: usize, tape: &[u8], st: &mut Stats) -> CaseResult {
        let sh = reg.shapes[shape].as_ref();
        let ty = sh.ty();
        let name = ty.short();
        let a = model::align(ty);
        let mut t = Tape::new(tape);
        let asynchronous = t.bool();
        let class = t.below(10);
        let msgs = gen_msgs(ty, &mut t, 4, 300);
        let mut stream = msgs.stream();
        let mut expect_parse_after: Option<usize> = None;
        let mut cname = "valid";
        match class {
            0 | 1 => {
                let len = t.below(3 * model::min_size(ty) + 65);
                stream = (0..len).map(|_| skew_byte(&mut t, len)).collect();
                cname = "random";
            }
            2 | 3 => {
                let k = 1 + t.below(4);
                for _ in 0..k {
                    if !stream.is_empty() {
                        let i = t.below(stream.len().min(65535));
                        stream[i] = skew_byte(&mut t, stream.len());
                    }
                }
                cname = "valid+point-mutations";
            }
            4 => {
                let k = t.below(stream.len().min(65535) + 1);
                stream.truncate(k);
                cname = "valid+truncated";
            }
            5 | 6 => {
                // one header field replaced by a boundary value
                if !msgs.values.is_empty() {
                    let j = t.below(msgs.values.len());
                    let base = msgs.starts[j];
                    let end = msgs.starts[j + 1];
                    let fields: Vec<_> = msgs.images[j].fields.iter().cloned().map(|mut f| { f.off += base; f }).collect();
                    let mut window = stream[..end].to_vec();
                    super::images::substitute_boundary(&mut window, &fields, &mut t);
                    stream[..end].copy_from_slice(&window);
                    cname = "valid+boundary-field";
                }
            }
            7 | 8 => {
                // single content-byte corruption
                if !msgs.values.is_empty() {
                    let j = t.below(msgs.values.len());
                    let base = msgs.starts[j];
                    let cands: Vec<_> = msgs.images[j]
                        .fields
                        .iter()
                        .filter(|f| match f.kind {
                            FieldKind::Bool | FieldKind::Tag { .. } => true,
                            FieldKind::Utf8 => f.size > 0,
                            _ => false,
                        })
                        .collect();
                    if !cands.is_empty() {
                        let f = cands[t.below(cands.len())];
                        match &f.kind {
                            FieldKind::Bool => stream[base + f.off] = 2 + (t.u8() % 254),
                            FieldKind::Tag { variants } => {
                                let width_max: u128 = (1u128 << (8 * f.size)) - 1;
                                let x = if t.bool() { *variants as u128 } else { width_max };
                                model::put_uint(&mut stream[base + f.off..base + f.off + f.size], x, f.be);
                            }
                            _ => {
                                if t.bool() {
                                    let p = t.below(f.size);
                                    stream[base + f.off + p] = 0xff;
                                } else {
                                    // incomplete multi-byte sequence at the very end of the string
                                    let txt = std::str::from_utf8(&msgs.images[j].bytes[f.off..f.off + f.size]).unwrap();
                                    let ls = txt.char_indices().last().map(|(i, _)| i).unwrap_or(0);
                                    let x = match f.size - ls {
                                        1 => 0xC3u8,
                                        2 => 0xE2,
                                        3 => 0xF1,
                                        _ => 0xff,
                                    };
                                    stream[base + f.off + ls] = x;
                                }
                            }
                        }
                        expect_parse_after = Some(j);
                        cname = "valid+one-content-byte-corrupted";
                    }
                }
            }
            _ => {}
        }
        let max_msg_len = match t.below(4) {
            0 => msgs.largest,
            1 => msgs.largest + 1,
            2 => 2 * msgs.largest,
            _ => msgs.largest + a,
        };
        let cuts = msgs.interesting_cuts(ty);
        let chunks = gen_chunks(stream.len(), &cuts, &mut t);
        st.shapes_seen.insert(name.clone());
        st.label(cname);
        let budget = 3 * stream.len() + chunks.len() + 64;
        let mut source = ScriptSource::new(stream.clone(), routs(&chunks), ROut::Deliver(usize::MAX), budget);
        let what = format!(
            "[{} receiver, stream {} ({}), read chunks {:?}, max_msg_len {}]",
            if asynchronous { "async" } else { "blocking" },
            cut(&stream),
            cname,
            chunks,
            max_msg_len
        );
        st.eval(1);
        // every message consumes at least one byte (ALIGN for zero-sized payloads), so this many events suffice
        let max_events = stream.len() + 8;
        // two thirds of the cases: an explicitly built buffer of the same capacity as ::io()'s, aligned two or
        // four times more strictly than the message type needs
        let shift = (stream.len() % 3) as u32;
        if shift > 0 {
            crate::io_glue::IO_CAPACITY.with(|c| c.set(Some(2 * max_msg_len.max(model::min_size(ty)))));
            crate::io_glue::IO_ALIGN_SHIFT.with(|c| c.set(shift));
        }
        let rep = if asynchronous {
            lib(|| sh.io_async_recv(&mut source, max_msg_len, max_events, 0, 8 * budget + 64))
        } else {
            lib(|| sh.io_recv_blocking(&mut source, max_msg_len, max_events, 0))
        };
        crate::io_glue::IO_CAPACITY.with(|c| c.set(None));
        crate::io_glue::IO_ALIGN_SHIFT.with(|c| c.set(0));
        let rep = match rep {
            Ok(r) => r,
            Err(p) => {
                let key = if p.contains(BUDGET_MSG) { "spins" } else { "panic" };
                crate::vfail!(key, "{}: receiver panicked: {} {}", name, p, what)
            }
        };
        if rep.stalled {
            crate::vfail!("spins", "{}: a recv future stopped making progress {}", name, what);
        }
        // independent framing
        let mut pos = 0usize;
        let mut nmsg = 0usize;
        for (i, ev) in rep.events.iter().enumerate() {
            let delivered = rep.delivered[i];
            match ev {
                RecvRes::Msg { value, size, anomalies, view_len, .. } => {
                    if delivered < pos {
                        crate::vfail!("framing", "{}: harness framing lost track {}", name, what);
                    }
                    let window = &stream[pos..delivered];
                    if !anomalies.is_empty() {
                        crate::vfail!("invalid-message", "{}: message #{} handed out by recv is inconsistent: {} {}", name, nmsg, anomalies.join("; "), what);
                    }
                    match model::decode(ty, window, 0) {
                        Ok(d) => {
                            let want = if ty.is_sized() { model::size(ty) } else { model::round_up(d.extent, a).max(model::min_size(ty)) };
                            if &d.value != value {
                                crate::vfail!("invalid-message", "{}: message #{} reads {} but the received bytes [{}..{}) decode to {} {}", name, nmsg, value.show(), pos, delivered, d.value.show(), what);
                            }
                            if *size != want || *size > window.len() || *view_len > window.len() {
                                crate::vfail!(
                                    "beyond-received",
                                    "{}: message #{} = {} claims size {} (view {} bytes) but only {} bytes have been received and the reference size is {} {}",
                                    name,
                                    nmsg,
                                    value.show(),
                                    size,
                                    view_len,
                                    window.len(),
                                    want,
                                    what
                                );
                            }
                            pos += size;
                            nmsg += 1;
                        }
                        Err(r) => crate::vfail!(
                            "invalid-message",
                            "{}: recv handed out message #{} = {} although the bytes received so far [{}..{}) are not a well-formed message ({:?}) {}",
                            name,
                            nmsg,
                            value.show(),
                            pos,
                            delivered,
                            r.kind,
                            what
                        ),
                    }
                }
                RecvRes::Retained => {}
                RecvRes::Closed => {
                    if delivered != stream.len() {
                        crate::vfail!("closed-early", "{}: Closed reported after {} of {} stream bytes {}", name, delivered, stream.len(), what);
                    }
                    if let Ok(d) = model::decode(ty, &stream[pos..], 0) {
                        // the reference sees a complete message in the rest
                        let _ = d;
                        if pos % a == 0 {
                            crate::vfail!("lost-message", "{}: Closed reported although the unconsumed rest [{}..) is a complete well-formed message {}", name, pos, what);
                        }
                    }
                }
                RecvRes::Parse(_) | RecvRes::Read(_) => {}
                RecvRes::Panic(m) | RecvRes::DropPanic(m) => {
                    let key = if m.contains(BUDGET_MSG) { "spins" } else { "panic" };
                    crate::vfail!(key, "{}: recv / guard drop panicked after {} messages: {} {}", name, nmsg, m, what);
                }
            }
        }
        if rep.events.len() >= max_events {
            crate::vfail!("spins", "{}: {} events without reaching the end of the {}-byte stream {}", name, rep.events.len(), stream.len(), what);
        }
        if let Some(j) = expect_parse_after {
            let ok = nmsg == j && matches!(rep.events.last(), Some(RecvRes::Parse(_)));
            if !ok {
                crate::vfail!(
                    "malformed-not-reported",
                    "{}: message #{} is complete but has one corrupted content byte; expected {} messages then a parse error, got {} messages then {:?} {}",
                    name,
                    j,
                    j,
                    nmsg,
                    rep.events.last().map(|e| format!("{:?}", e).chars().take(80).collect::<String>()),
                    what
                );
            }
            st.label("corrupted content reported as parse error");
        }
        let gate = stream.len() >= model::min_size(ty);
        let nonzero_header = stream.iter().take(model::min_size(ty).max(1)).any(|b| *b != 0);
        if gate && nonzero_header {
            st.nontrivial((&name, &stream, &chunks, max_msg_len, asynchronous), || {
                json!({"shape": name, "stream": cut(&stream), "class": cname, "chunks": chunks, "max_msg_len": max_msg_len,
                    "events": rep.events.iter().map(|e| format!("{:?}", e).chars().take(60).collect::<String>()).collect::<Vec<_>>()})
            });
        }
        Ok(())
    }
}
