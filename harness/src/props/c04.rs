//! C04 — computed layout == compiler layout == reference C layout.

use super::common::*;
use crate::buf::Guarded;
use crate::model::{self, Canonical};
use crate::run::*;
use crate::tape::{gen_value, Fuel, Tape};
use crate::vfail;
use serde_json::json;

pub struct C04;

impl Property for C04 {
    fn id(&self) -> &'static str {
        "C04"
    }
    fn rule(&self) -> String {
        "case = (shape = generated #[flat] program, value, EVERY buffer length n in MIN_SIZE ..= MIN_SIZE+4*ALIGN+9); \
         oracle (three-way) = library constants ALIGN/MIN_SIZE/SIZE == compiler (align_of/size_of/align_of_val/size_of_val, field addresses recorded while walking the mapped value) == reference C-layout rule; size_of_val <= n; as_bytes().len() == size_of_val; capacities == reference; \
         non-trivial = shape has fields of different alignment, nesting depth >= 2 or an unsized tail, and (for unsized shapes) n is not a multiple of ALIGN; distinct by (shape, n, value); \
         plus direct checks of ceil_mul/floor_mul/max/min and PosIter against arithmetic"
            .into()
    }
    fn assumptions(&self) -> Vec<String> {
        vec![
            "only this host's ABI (x86-64) is observed".into(),
            "type definitions are sampled from the grammar in harness/src/gen.rs (fixed corpus + seeded extra corpus in the thorough tier)".into(),
        ]
    }
    fn config(&self, tier: Tier) -> PropConfig {
        match tier {
            Tier::Quick => PropConfig { cases: 30000, max_tape: 120, shards: 12 },
            Tier::Thorough => PropConfig { cases: 480000, max_tape: 200, shards: 16 },
        }
    }
    fn prelude(&self, reg: &Registry, shard: u32, _n: u32, _tier: Tier, st: &mut Stats) -> CaseResult {
        if shard != 0 {
            return Ok(());
        }
        // constants of every shape (exhaustive over the corpus)
        for sh in &reg.shapes {
            let ty = sh.ty();
            let c = match lib(|| sh.consts()) {
                Ok(c) => c,
                Err(p) => vfail!("panic", "{}: evaluating layout constants panicked: {}", ty.short(), p),
            };
            st.eval(1);
            if c.align != model::align(ty) {
                vfail!("align", "{}: ALIGN = {} but reference alignment is {}", ty.short(), c.align, model::align(ty));
            }
            if c.min_size != model::min_size(ty) {
                vfail!("min_size", "{}: MIN_SIZE = {} but reference minimum size is {}", ty.short(), c.min_size, model::min_size(ty));
            }
            if let Some((s, a)) = c.native {
                if s != model::size(ty) || a != model::align(ty) {
                    vfail!(
                        "native",
                        "{}: compiler size/align = {}/{} but reference C layout gives {}/{}",
                        ty.short(),
                        s,
                        a,
                        model::size(ty),
                        model::align(ty)
                    );
                }
            }
        }
        st.exhaustive_parts.push("layout constants of every shape in the corpus".into());
        // utility functions
        use flatty::utils::{ceil_mul, floor_mul, max, min};
        for x in 0..600usize {
            for m in [1usize, 2, 3, 4, 5, 7, 8, 16, 32, 64] {
                st.eval(1);
                let c = ceil_mul(x, m);
                let f = floor_mul(x, m);
                if !(c % m == 0 && c >= x && c < x + m) {
                    vfail!("ceil_mul", "ceil_mul({}, {}) = {}", x, m, c);
                }
                if !(f % m == 0 && f <= x && f + m > x) {
                    vfail!("floor_mul", "floor_mul({}, {}) = {}", x, m, f);
                }
                if max(x, m) != std::cmp::max(x, m) || min(x, m) != std::cmp::min(x, m) {
                    vfail!("maxmin", "max/min({}, {})", x, m);
                }
            }
        }
        st.exhaustive_parts.push("ceil_mul/floor_mul/max/min for x < 600, 10 moduli".into());
        super::c04_positer::check(st)?;
        Ok(())
    }
    fn run_case(&self, reg: &Registry, shape: usize, tape: &[u8], st: &mut Stats) -> CaseResult {
        let sh = &reg.shapes[shape];
        let ty = sh.ty();
        let name = ty.short();
        let mut t = Tape::new(tape);
        let a = model::align(ty);
        let ms = model::min_size(ty);
        let route = t.route(4);
        let mut fuel = Fuel::small();
        fuel.max_len = 6;
        let v = gen_value(ty, &mut t, &mut fuel);
        let mins = minimal_values(ty);
        st.shapes_seen.insert(name.clone());
        let mixed_align = ty.any(|x| model::align(x) != a) || ty.depth() >= 2 || !ty.is_sized();
        for n in ms..=ms + 4 * a + 9 {
            // a value that fits in n bytes
            let mut chosen = None;
            for cand in std::iter::once(&v).chain(mins.iter()) {
                if let Ok(img) = model::encode(ty, cand, n, 0, &mut Canonical) {
                    chosen = Some((cand, img));
                    break;
                }
            }
            let Some((val, _img)) = chosen else {
                vfail!("harness-minimal", "harness: no value of {} fits in {} >= MIN_SIZE bytes according to the reference", name, n);
            };
            let mut buf = Guarded::new(n, 0, n % 2 == 1);
            buf.slice().fill(0xA5);
            let mut out = None;
            st.eval(1);
            let r = lib(|| sh.new_in_place(buf.slice(), val, &route, &mut |live| out = Some(live.read())));
            match r {
                Err(p) => vfail!("panic", "{}: new_in_place({}) into {} bytes panicked: {}", name, val.show(), n, p),
                Ok(Err(e)) => vfail!("refused", "{}: new_in_place({}) into {} bytes (MIN_SIZE {}) failed: {}", name, val.show(), n, ms, show_err(&e)),
                Ok(Ok(())) => {}
            }
            if let Err(m) = buf.check() {
                vfail!("canary", "{}: new_in_place({}) into {} bytes: {}", name, val.show(), n, m);
            }
            let out = out.unwrap();
            if out.align_of_val != a {
                vfail!("align_of_val", "{}: align_of_val = {} but ALIGN = {}", name, out.align_of_val, a);
            }
            let vl = model::view_len(ty, n);
            if out.size_of_val != vl || out.size_of_val > n {
                vfail!(
                    "size_of_val",
                    "{}: mapped on {} bytes the value has size_of_val {} (reference view: {} bytes)",
                    name,
                    n,
                    out.size_of_val,
                    vl
                );
            }
            if out.bytes_len != out.size_of_val {
                vfail!("as_bytes", "{}: mapped on {} bytes, as_bytes() has {} bytes but size_of_val is {}", name, n, out.bytes_len, out.size_of_val);
            }
            if out.bytes_len > n || out.bytes_off != 0 {
                vfail!("as_bytes", "{}: mapped on {} bytes, as_bytes() is [{}, +{})", name, n, out.bytes_off as isize, out.bytes_len);
            }
            if let Err(m) = check_readout(&out, val, n) {
                vfail!("readback", "{}: {} bytes: {}", name, n, m);
            }
            let dec = match decode_ok(ty, buf.as_ref()) {
                Ok(d) => d,
                Err(m) => vfail!("decode", "{}: emplaced {} in {} bytes: {}", name, val.show(), n, m),
            };
            if let Err(m) = compare_nodes(&out.nodes, &dec.nodes) {
                vfail!("offsets", "{}: value {} mapped on {} bytes: {}", name, val.show(), n, m);
            }
            if mixed_align && (ty.is_sized() || n % a != 0) {
                st.nontrivial((&name, n, val), || sample_value(ty, val, json!({"n": n, "size_of_val": out.size_of_val, "nodes": out.nodes.len()})));
                st.label("non-trivial");
            } else {
                st.label("trivial (uniform alignment or aligned length)");
            }
        }
        Ok(())
    }
}
