//! Model-based history engine shared by C05, C11, C12, C13, C14 and C18.
//!
//! A history is: construct a value in a guarded buffer, then apply generated
//! operations to nested nodes through the public `&mut` accessors. After every
//! step the real bytes are decoded by the reference decoder and compared with
//! an abstract value that is updated by the sequential model; whether a
//! growing operation fits is decided by the reference from the decoded
//! geometry (capacities, FlexVec chain) of the current bytes.
//!
//! Each property *owns* some clauses; a failure of a clause the running
//! property does not own ends the case quietly (label "diverged: ...").

use super::common::*;
use crate::buf::Guarded;
use crate::desc::*;
use crate::glue::{DynShape, Live, Op, OpOut};
use crate::model::{self, Canonical, Decoded, Node};
use crate::run::*;
use crate::tape::{gen_char, gen_value, Fuel, Tape};
use serde_json::json;

#[derive(Clone, Copy, PartialEq, Eq, Debug)]
pub enum Clause {
    /// FlatVec / FlatString behave like the sequential model (returns, len, contents, capacity)
    VecModel,
    /// FlexVec behaves like a sequence (len, items, pop/truncate semantics, edits isolated)
    FlexModel,
    /// size() == reference extent, <= buffer, first size() bytes re-map to the same
    Size,
    /// bytes validate and re-map to the same state after every step
    Remap,
    /// a refused container operation leaves everything as it was
    RefusedUnchanged,
    /// failed assign_in_place leaves a valid (and, for plain lack of room, unchanged) value
    AssignValid,
    /// successful assignment / field write reads back
    AssignOk,
    /// only bytes of the part being changed are modified
    WriteSet,
}

#[derive(Clone, Copy, PartialEq, Eq, Debug)]
pub enum Focus {
    Mixed,
    VecString,
    Flex,
    Edge,
    Assign,
}

pub struct HistCfg {
    pub prop: &'static str,
    pub owned: &'static [Clause],
    pub focus: Focus,
    pub max_steps: usize,
}

impl HistCfg {
    fn owns(&self, c: Clause) -> bool {
        self.owned.contains(&c)
    }
}

/// Why a case stopped.
enum Stop {
    Violation(Violation),
    Diverged(&'static str),
}

pub fn resolve<'a>(ty: &'a Ty, v: &'a Value, path: &[u16]) -> Option<(&'a Ty, &'a Value)> {
    let Some((i, rest)) = path.split_first() else { return Some((ty, v)) };
    let i = *i as usize;
    match (ty, v) {
        (Ty::Struct(s), Value::Struct(fs)) => resolve(s.fields.get(i)?, fs.get(i)?, rest),
        (Ty::Enum(e), Value::Enum(k, fs)) => resolve(e.variants[*k].fields.get(i)?, fs.get(i)?, rest),
        (Ty::Array(t, _), Value::Array(xs)) | (Ty::FlatVec(t, _), Value::Vec(xs)) | (Ty::FlexVec(t, _), Value::Flex(xs)) => {
            resolve(t, xs.get(i)?, rest)
        }
        _ => None,
    }
}

pub fn resolve_mut<'a>(v: &'a mut Value, path: &[u16]) -> &'a mut Value {
    let Some((i, rest)) = path.split_first() else { return v };
    resolve_mut(&mut v.items_mut()[*i as usize], rest)
}

fn under_flex(ty: &Ty, v: &Value, path: &[u16]) -> bool {
    (0..path.len()).any(|k| matches!(resolve(ty, v, &path[..k]), Some((Ty::FlexVec(..), _))))
}

/// What a failed emplacement over an existing value leaves behind, according to the emplacer protocol
/// of the pinned tree (container emplacers check before they reset; flex::FromIterator resets the
/// vector to empty on any failure; generated *Init emplacers write the tag / sized fields and then
/// descend into the last field without being able to roll back).
#[derive(Clone, Copy, PartialEq, Debug)]
pub enum After {
    /// nothing is written: the target is byte-for-byte what it was
    Unchanged,
    /// parts were written, but every part is a valid value (known finding C18|nested-emplacer-failure
    /// covers the "unchanged" clause only)
    ValidChanged,
    /// parts were written and the part that failed is stale memory of another layout (enum variant
    /// switch): the target may not even be valid (known finding C18|nested-emplacer-failure)
    MaybeInvalid,
}

/// Where emplacing `v` into `n` bytes that currently hold `old` fails: path of the first node (in
/// emplacement order) that does not fit, and the state the target is left in. None if it fits.
///
/// `loose_vec`: every FlatVec of the value is emplaced from an iterator whose size_hint lower bound is 0
/// (route 0xF5): such an emplacer cannot check first; it resets the vector, fills it and fails when the
/// capacity is exhausted, which leaves a valid vector holding the first `capacity` items (the recorded
/// finding C18|unknown-length-iterator is about the content being changed, not about validity).
pub fn fit_failure(ty: &Ty, v: &Value, old: &Value, n: usize, loose_vec: bool) -> Option<(Vec<u16>, After)> {
    // `old` is Some iff the node's region currently holds a valid value of the node's type (no enum
    // variant switch above it)
    fn go(ty: &Ty, v: &Value, old: Option<&Value>, n: usize, path: &mut Vec<u16>, loose_vec: bool) -> Option<(Vec<u16>, After)> {
        let untouched = if old.is_some() { After::Unchanged } else { After::MaybeInvalid };
        if n < model::min_size(ty) {
            return Some((path.clone(), untouched));
        }
        match (ty, v) {
            (Ty::Struct(s), Value::Struct(fs)) if !s.sized => {
                let n = model::round_down(n, model::align(ty));
                let (offs, _) = model::field_offsets(&s.fields);
                let k = s.fields.len() - 1;
                let child_old = match old {
                    Some(Value::Struct(ofs)) => Some(&ofs[k]),
                    _ => None,
                };
                path.push(k as u16);
                let r = go(&s.fields[k], &fs[k], child_old, n - offs[k], path, loose_vec);
                path.pop();
                // the sized fields before the last one have been written by then
                r.map(|(p, a)| (p, if a == After::Unchanged && k > 0 { After::ValidChanged } else { a }))
            }
            (Ty::Enum(e), Value::Enum(i, fs)) if !e.sized => {
                let n = model::round_down(n, model::align(ty));
                let d = model::enum_data_offset(e);
                let fields = &e.variants[*i].fields;
                if n - d < model::variant_min_size(fields) {
                    return Some((path.clone(), untouched));
                }
                if let Some(last) = fields.last() {
                    if !last.is_sized() {
                        let (offs, _) = model::field_offsets(fields);
                        let k = fields.len() - 1;
                        let child_old = match old {
                            Some(Value::Enum(j, ofs)) if j == i => Some(&ofs[k]),
                            _ => None,
                        };
                        path.push(k as u16);
                        let r = go(last, &fs[k], child_old, n - d - offs[k], path, loose_vec);
                        path.pop();
                        // the tag (and earlier fields) have been written by then
                        return r.map(|(p, a)| (p, if a == After::Unchanged && k > 0 { After::ValidChanged } else { a }));
                    }
                }
                None
            }
            (Ty::FlatVec(..), Value::Vec(xs)) => (xs.len() > model::capacity(ty, n)).then(|| (path.clone(), if loose_vec { After::ValidChanged } else { untouched })),
            (Ty::FlatString(_), Value::Str(s)) => (s.len() > model::capacity(ty, n)).then(|| (path.clone(), untouched)),
            (Ty::FlexVec(t, l), Value::Flex(xs)) => {
                let a = model::align(ty);
                let n = model::round_down(n, a);
                let os = model::data_offset(ty);
                let mut pos = 0;
                for (i, x) in xs.iter().enumerate() {
                    if pos + os > n {
                        return Some((path.clone(), After::ValidChanged));
                    }
                    path.push(i as u16);
                    // the item emplacer works inside the old chain's bytes (stale for the item)
                    let r = go(t, x, None, n - pos - os, path, loose_vec);
                    path.pop();
                    if let Some((p, _)) = r {
                        // flex::FromIterator cannot know whether the item emplacer wrote anything and
                        // resets the vector (valid, but changed)
                        return Some((p, After::ValidChanged));
                    }
                    let stride = os + model::round_up(model::size_of(t, x), a);
                    if i + 1 < xs.len() && stride as u128 >= l.max() {
                        return Some((path.clone(), After::ValidChanged));
                    }
                    pos += stride;
                }
                None
            }
            _ => None,
        }
    }
    go(ty, v, Some(old), n, &mut vec![], loose_vec)
}

/// Equality of two values as the element types' `PartialEq` defines it: native floats compare
/// numerically (NaN != NaN, 0.0 == -0.0), everything else structurally / by stored bytes.
pub fn values_eq(ty: &Ty, a: &Value, b: &Value) -> bool {
    match (ty, a, b) {
        (Ty::Prim(Prim::F32), Value::Scalar(x), Value::Scalar(y)) => f32::from_bits(*x as u32) == f32::from_bits(*y as u32),
        (Ty::Prim(Prim::F64), Value::Scalar(x), Value::Scalar(y)) => f64::from_bits(*x as u64) == f64::from_bits(*y as u64),
        (Ty::Array(t, _), Value::Array(xs), Value::Array(ys)) | (Ty::FlatVec(t, _), Value::Vec(xs), Value::Vec(ys)) => {
            xs.len() == ys.len() && xs.iter().zip(ys).all(|(x, y)| values_eq(t, x, y))
        }
        (Ty::Struct(s), Value::Struct(xs), Value::Struct(ys)) => s.fields.iter().zip(xs.iter().zip(ys)).all(|(t, (x, y))| values_eq(t, x, y)),
        (Ty::Enum(e), Value::Enum(i, xs), Value::Enum(j, ys)) => i == j && e.variants[*i].fields.iter().zip(xs.iter().zip(ys)).all(|(t, (x, y))| values_eq(t, x, y)),
        _ => a == b,
    }
}

fn peek(addr: usize, len: usize) -> Vec<u8> {
    let mut v = vec![0u8; len];
    unsafe { std::ptr::copy_nonoverlapping(addr as *const u8, v.as_mut_ptr(), len) };
    v
}

struct Step {
    path: Vec<u16>,
    op: Op,
    /// what the sequential model expects
    expect: Expect,
    /// for the evidence / messages
    desc: String,
    /// byte ranges (relative to the buffer) the operation may modify
    allowed: Vec<(usize, usize)>,
}

#[derive(Debug, Clone, PartialEq)]
enum Expect {
    /// operation succeeds; abstract value of the target node becomes this
    Done(Value),
    /// refused (Refused or Err); nothing changes
    Refused,
    Popped(Option<Value>, Value),
    Removed(Value, Value),
    /// failed assignment: the target must be a valid value afterwards, and unchanged if `unchanged`
    AssignFails { unchanged: bool },
}

fn op_kind(op: &Op) -> Clause {
    match op {
        Op::Set(_) | Op::Assign(..) => Clause::AssignOk,
        Op::FPush(..) | Op::FPushDefault | Op::FPop | Op::FTruncate(_) | Op::FClear => Clause::FlexModel,
        _ => Clause::VecModel,
    }
}

/// Generate the next step for the current (decoded) state.
fn gen_step(ty: &Ty, dec: &Decoded, bytes: &[u8], t: &mut Tape, cfg: &HistCfg, st: &mut Stats) -> Option<Step> {
    // candidate targets
    let mut cands: Vec<(&Node, &Ty, &Value, usize)> = Vec::new();
    for nd in &dec.nodes {
        let Some((nty, nv)) = resolve(ty, &dec.value, &nd.path) else { continue };
        let w = match (nty, cfg.focus) {
            (Ty::FlatVec(..) | Ty::FlatString(_), Focus::VecString) => 8,
            (Ty::FlatVec(..) | Ty::FlatString(_), Focus::Flex) => {
                if under_flex(ty, &dec.value, &nd.path) {
                    4
                } else {
                    1
                }
            }
            (Ty::FlatVec(..) | Ty::FlatString(_), _) => 4,
            (Ty::FlexVec(..), Focus::Flex) => 10,
            (Ty::FlexVec(..), Focus::VecString) => 1,
            (Ty::FlexVec(..), _) => 5,
            (Ty::Struct(s), Focus::Assign) if !s.sized => 8,
            (Ty::Enum(e), Focus::Assign) if !e.sized => 8,
            (Ty::Struct(s), _) if !s.sized => 1,
            (Ty::Enum(e), _) if !e.sized => 2,
            (Ty::Unit, _) => 0,
            (_, Focus::VecString | Focus::Flex | Focus::Edge) => {
                if nd.path.is_empty() {
                    1
                } else {
                    0
                }
            }
            _ => 1,
        };
        if w > 0 {
            cands.push((nd, nty, nv, w));
        }
    }
    if cands.is_empty() {
        return None;
    }
    let total: usize = cands.iter().map(|c| c.3).sum();
    let mut pick = t.below(total.min(65535));
    let mut chosen = cands[0];
    for c in &cands {
        if pick < c.3 {
            chosen = *c;
            break;
        }
        pick -= c.3;
    }
    let (nd, nty, nv, _) = chosen;
    let path = nd.path.clone();
    let whole = vec![(nd.off, nd.off + nd.len)];
    let mut fuel = Fuel::small();
    fuel.max_len = 6;
    let assign = |t: &mut Tape, st: &mut Stats| -> Option<Step> {
        // replacement value for an unsized node (or a sized one through assign_in_place)
        let mut fuel = match t.below(8) {
            0 | 1 => Fuel { elems: 200, max_len: 40, overlong: false },
            2 => Fuel { elems: 700, max_len: 280, overlong: true },
            _ => Fuel::small(),
        };
        let nv2 = gen_value(nty, t, &mut fuel);
        let fail = fit_failure(nty, &nv2, nv, nd.len, false);
        // iterator-driven emplacers of unknown length cannot be transactional (known finding
        // C18|unknown-length-iterator): failing assignments keep to exact-size routes, or - one in five -
        // use the loose route for every FlatVec, in which case only validity is demanded; assignments that
        // fit also go through iterators with a loose size_hint
        let mut route = if fail.is_none() { t.route(3) } else { t.route_exact(3) };
        let loose = fail.is_some() && route[2] % 5 == 0;
        let fail = if loose {
            route = vec![0xF5; 3];
            fit_failure(nty, &nv2, nv, nd.len, true)
        } else {
            fail
        };
        let expect = match &fail {
            None => {
                if model::encode(nty, &nv2, nd.len, 0, &mut Canonical).is_err() {
                    // not representable for another reason
                    Expect::AssignFails { unchanged: false }
                } else {
                    Expect::Done(nv2.clone())
                }
            }
            Some((_, After::MaybeInvalid)) => {
                // Known finding C18|nested-emplacer-failure: the part that does not fit is reached after a
                // generated enum *Init emplacer has switched the variant; that part is then stale memory of the
                // old variant, the emplacer protocol cannot roll back and the result may be invalid.
                st.exclude("assign fails below an enum *Init after the variant was switched (known finding C18|nested-emplacer-failure)");
                return None;
            }
            Some((_, After::ValidChanged)) => {
                // earlier parts (sized fields, tag, FlexVec items) are already written when the failure is
                // detected, so the old content cannot survive (same known finding), but every part is a valid
                // value on the pinned tree and the whole must be one
                st.exclude("unchanged-clause of an assignment that fails after earlier parts were written (known finding C18|nested-emplacer-failure); validity is still checked");
                Expect::AssignFails { unchanged: false }
            }
            Some((_, After::Unchanged)) => Expect::AssignFails { unchanged: true },
        };
        Some(Step {
            path: path.clone(),
            desc: format!("assign_in_place({}) at {:?}", nv2.show(), path),
            op: Op::Assign(nv2, route),
            expect,
            allowed: whole.clone(),
        })
    };
    match (nty, nv) {
        (Ty::FlatVec(et, _), Value::Vec(xs)) => {
            let cap = nd.cap.unwrap();
            let len = xs.len();
            let k = match cfg.focus {
                Focus::Edge => [0, 0, 2, 2, 3, 3, 0, 2, 3, 12][t.below(10)],
                Focus::Assign if t.bool() => 13,
                _ => t.below(14),
            };
            let step = |op: Op, expect: Expect, desc: String| Some(Step { path: path.clone(), op, expect, desc, allowed: whole.clone() });
            match k {
                0 | 1 => {
                    let x = gen_value(et, t, &mut fuel);
                    let mut n = xs.clone();
                    n.push(x.clone());
                    step(Op::VPush(x.clone()), if len < cap { Expect::Done(Value::Vec(n)) } else { Expect::Refused }, format!("push({}) at {:?} [len {} cap {}]", x.show(), path, len, cap))
                }
                2 => {
                    // push_slice: around the remaining room
                    let rem = cap - len;
                    let cnt = match t.below(6) {
                        0 => rem,
                        1 => rem + 1,
                        2 => rem.saturating_sub(1),
                        3 => 0,
                        _ => t.below(rem.min(20) + 3),
                    };
                    if cnt > 400 {
                        return None;
                    }
                    let ys: Vec<Value> = (0..cnt).map(|_| gen_value(et, t, &mut fuel)).collect();
                    let mut n = xs.clone();
                    n.extend(ys.iter().cloned());
                    step(Op::VPushSlice(ys), if cnt <= rem { Expect::Done(Value::Vec(n)) } else { Expect::Refused }, format!("push_slice(len {}) at {:?} [len {} cap {}]", cnt, path, len, cap))
                }
                3 => {
                    let rem = cap - len;
                    let cnt = match t.below(4) {
                        0 => rem,
                        1 => rem + 2,
                        _ => t.below(rem.min(20) + 3),
                    };
                    if cnt > 400 {
                        return None;
                    }
                    let ys: Vec<Value> = (0..cnt).map(|_| gen_value(et, t, &mut fuel)).collect();
                    let mut n = xs.clone();
                    n.extend(ys.iter().take(rem).cloned());
                    step(Op::VExtend(ys), Expect::Done(Value::Vec(n)), format!("extend_until_full({} items) at {:?} [len {} cap {}]", cnt, path, len, cap))
                }
                4 => {
                    let mut n = xs.clone();
                    let p = n.pop();
                    step(Op::VPop, Expect::Popped(p, Value::Vec(n)), format!("pop() at {:?} [len {}]", path, len))
                }
                5 => {
                    let k = t.below(len + 3);
                    let mut n = xs.clone();
                    n.truncate(k);
                    step(Op::VTruncate(k), Expect::Done(Value::Vec(n)), format!("truncate({}) at {:?} [len {}]", k, path, len))
                }
                6 => step(Op::VClear, Expect::Done(Value::Vec(vec![])), format!("clear() at {:?}", path)),
                7 | 8 => {
                    let i = t.below(len + 2);
                    if i >= len {
                        st.label("precondition_skipped: remove/swap_remove index out of range");
                        return None;
                    }
                    let mut n = xs.clone();
                    if k == 7 {
                        let r = n.remove(i);
                        step(Op::VRemove(i), Expect::Removed(r, Value::Vec(n)), format!("remove({}) at {:?} [len {}]", i, path, len))
                    } else {
                        let r = n.swap_remove(i);
                        step(Op::VSwapRemove(i), Expect::Removed(r, Value::Vec(n)), format!("swap_remove({}) at {:?} [len {}]", i, path, len))
                    }
                }
                9 => {
                    let k = t.below(cap.min(40) + 3);
                    if k > cap {
                        st.label("precondition_skipped: resize beyond capacity");
                        return None;
                    }
                    let x = gen_value(et, t, &mut fuel);
                    let mut n = xs.clone();
                    n.resize(k, x.clone());
                    step(Op::VResize(k, x), Expect::Done(Value::Vec(n)), format!("resize({}) at {:?} [len {} cap {}]", k, path, len, cap))
                }
                10 if t.chance(1, 3) => {
                    let x = gen_value(et, t, &mut fuel);
                    let n: Vec<Value> = xs.iter().map(|_| x.clone()).collect();
                    step(Op::VIterMutFill(x), Expect::Done(Value::Vec(n)), format!("iter_mut() fill at {:?} [len {}]", path, len))
                }
                10 | 11 => {
                    if len == 0 {
                        return None;
                    }
                    let i = t.below(len);
                    let x = gen_value(et, t, &mut fuel);
                    let mut n = xs.clone();
                    n[i] = x.clone();
                    step(Op::VSetAt(i, x), Expect::Done(Value::Vec(n)), format!("[{}] = .. at {:?}", i, path))
                }
                _ => assign(t, st),
            }
        }
        (Ty::FlatString(_), Value::Str(s)) => {
            let cap = nd.cap.unwrap();
            let step = |op: Op, expect: Expect, desc: String| Some(Step { path: path.clone(), op, expect, desc, allowed: whole.clone() });
            let k = match cfg.focus {
                Focus::Edge => [0, 1, 1, 0, 1, 5][t.below(6)],
                Focus::Assign if t.bool() => 6,
                _ => t.below(7),
            };
            match k {
                0 => {
                    let c = gen_char(t);
                    let mut n = s.clone();
                    n.push(c);
                    step(Op::SPush(c), if n.len() <= cap { Expect::Done(Value::Str(n)) } else { Expect::Refused }, format!("push({:?}) at {:?} [len {} cap {}]", c, path, s.len(), cap))
                }
                1 | 2 => {
                    let rem = cap - s.len();
                    let target = match t.below(5) {
                        0 => rem,
                        1 => rem + 1,
                        2 => rem.saturating_sub(1),
                        _ => t.below(rem.min(24) + 4),
                    };
                    let mut add = String::new();
                    while add.len() < target && add.len() < 600 {
                        let c = if target - add.len() >= 4 && t.chance(1, 3) { gen_char(t) } else { 'a' };
                        if add.len() + c.len_utf8() > target + 3 {
                            break;
                        }
                        add.push(c);
                    }
                    let mut n = s.clone();
                    n.push_str(&add);
                    step(Op::SPushStr(add.clone()), if n.len() <= cap { Expect::Done(Value::Str(n)) } else { Expect::Refused }, format!("push_str({} bytes) at {:?} [len {} cap {}]", add.len(), path, s.len(), cap))
                }
                3 => step(Op::SClear, Expect::Done(Value::Str(String::new())), format!("clear() at {:?}", path)),
                4 => step(Op::SUpper, Expect::Done(Value::Str(s.to_ascii_uppercase())), format!("as_mut_str().make_ascii_uppercase() at {:?}", path)),
                _ => assign(t, st),
            }
        }
        (Ty::FlexVec(it, l), Value::Flex(xs)) => {
            let a = model::align(nty);
            let os = model::data_offset(nty);
            let n = model::round_down(nd.region, a);
            let geo = model::flex_geo(nty, &bytes[nd.off..nd.off + n]);
            let k = if cfg.focus == Focus::Edge { [0, 0, 0, 1, 0, 0][t.below(6)] } else { t.below(12) };
            // header positions of all slots + terminator
            let mut headers: Vec<(usize, usize)> = geo.slots.iter().map(|p| (nd.off + p, nd.off + p + l.size())).collect();
            headers.push((nd.off + geo.tail_pos, nd.off + geo.tail_pos + l.size()));
            let _ = &headers;
            // write set of truncate(keep) / pop / clear: nothing when nothing is dropped; otherwise the
            // slot of the new last item (it becomes the end of the chain) and the bytes of the dropped
            // items - the slots and payloads of the items that stay belong to neighbours (C14-16)
            let trunc_allowed = |keep: usize| -> Vec<(usize, usize)> {
                let len = geo.slots.len();
                if keep >= len {
                    return vec![];
                }
                let mut v = vec![(nd.off + geo.slots[keep], nd.off + n)];
                if keep > 0 {
                    v.push((nd.off + geo.slots[keep - 1], nd.off + geo.slots[keep - 1] + l.size()));
                }
                v
            };
            match k {
                0..=3 => {
                    // push / push_default
                    let default = k == 3 && it.has_default();
                    let x = if default {
                        default_value(it)
                    } else {
                        let mut f = if t.chance(1, 5) { Fuel { elems: 300, max_len: 260, overlong: true } } else { fuel };
                        gen_value(it, t, &mut f)
                    };
                    // where would the new slot go?
                    let (new_pos, seal_ok) = if geo.last_is_max {
                        // the current last item is sealed at its reference size
                        let last_i = xs.len() - 1;
                        let item_node = dec.node(&[path.clone(), vec![last_i as u16]].concat()).unwrap();
                        let item_bytes = &bytes[item_node.off..item_node.off + item_node.region];
                        let ext = model::decode(it, item_bytes, 0).map(|d| d.extent).unwrap_or(0);
                        let isz = if it.is_sized() { model::size(it) } else { model::round_up(ext, model::align(it)).max(model::min_size(it)) };
                        let stride = os + model::round_up(isz, a);
                        (geo.tail_pos + stride, (stride as u128) < l.max())
                    } else {
                        (geo.tail_pos, true)
                    };
                    let fits = seal_ok && new_pos + os <= n && model::encode(it, &x, n - new_pos - os, 0, &mut Canonical).is_ok();
                    let mut nv2 = xs.clone();
                    nv2.push(x.clone());
                    let route = t.route_exact(2);
                    let mut allowed = vec![(nd.off + geo.tail_pos, nd.off + geo.tail_pos + l.size())];
                    if new_pos < n {
                        allowed.push((nd.off + new_pos, nd.off + n));
                    }
                    Some(Step {
                        path: path.clone(),
                        desc: format!(
                            "{}({}) at {:?} [{} items, new slot at {} of {}]",
                            if default { "push_default" } else { "push" },
                            x.show(),
                            path,
                            xs.len(),
                            new_pos,
                            n
                        ),
                        op: if default { Op::FPushDefault } else { Op::FPush(x, route) },
                        expect: if fits { Expect::Done(Value::Flex(nv2)) } else { Expect::Refused },
                        allowed,
                    })
                }
                4 | 5 => {
                    let mut nv2 = xs.clone();
                    let p = nv2.pop();
                    Some(Step {
                        path: path.clone(),
                        desc: format!("pop() at {:?} [{} items]", path, xs.len()),
                        op: Op::FPop,
                        expect: if p.is_some() { Expect::Done(Value::Flex(nv2)) } else { Expect::Refused },
                        allowed: trunc_allowed(xs.len().saturating_sub(1)),
                    })
                }
                6 | 7 => {
                    let k = t.below(xs.len() + 3);
                    // "keep everything" at the far end of the argument range
                    let k = if k == xs.len() + 2 && path.len() % 2 == 0 { usize::MAX - (xs.len() % 2) } else { k };
                    let mut nv2 = xs.clone();
                    nv2.truncate(k);
                    Some(Step {
                        path: path.clone(),
                        desc: format!("truncate({}) at {:?} [{} items]", k, path, xs.len()),
                        op: Op::FTruncate(k),
                        expect: Expect::Done(Value::Flex(nv2)),
                        allowed: trunc_allowed(k),
                    })
                }
                8 => Some(Step {
                    path: path.clone(),
                    desc: format!("clear() at {:?} [{} items]", path, xs.len()),
                    op: Op::FClear,
                    expect: Expect::Done(Value::Flex(vec![])),
                    allowed: trunc_allowed(0),
                }),
                _ => assign(t, st),
            }
        }
        (Ty::Struct(s), _) if !s.sized => assign(t, st),
        (Ty::Enum(e), _) if !e.sized => assign(t, st),
        (Ty::Unit, _) => None,
        _ => {
            // sized node: plain write or assign_in_place with the value itself
            let x = gen_value(nty, t, &mut fuel);
            if t.bool() {
                Some(Step {
                    path: path.clone(),
                    desc: format!("write {} at {:?}", x.show(), path),
                    op: Op::Set(x.clone()),
                    expect: Expect::Done(x),
                    allowed: whole,
                })
            } else {
                Some(Step {
                    path: path.clone(),
                    desc: format!("assign_in_place({}) at {:?}", x.show(), path),
                    op: Op::Assign(x.clone(), vec![]),
                    expect: Expect::Done(x),
                    allowed: whole,
                })
            }
        }
    }
}

pub struct HistOutcome {
    pub steps: usize,
    pub grew: bool,
    pub shrank: bool,
    pub refused_nonempty: bool,
    pub assign_failed: bool,
    pub push_pop_push: bool,
    pub edited_nonlast: bool,
    pub full_and_empty: bool,
    pub hit_len_max: bool,
    pub odd_extent: bool,
    pub sibling_target: bool,
    pub trace: Vec<String>,
    pub initial: String,
    pub buffer: usize,
}

pub fn run_history(sh: &dyn DynShape, tape: &[u8], cfg: &HistCfg, st: &mut Stats) -> Result<Option<HistOutcome>, Violation> {
    let ty = sh.ty();
    let name = ty.short();
    let a = model::align(ty);
    let mut t = Tape::new(tape);
    let nsteps = 1 + t.below(cfg.max_steps);
    let mut fuel = match cfg.focus {
        Focus::Edge if t.chance(1, 3) => Fuel { elems: 600, max_len: 280, overlong: false },
        _ if t.chance(1, 16) => Fuel::big(),
        _ => Fuel::small(),
    };
    let extra = match t.below(8) {
        0 => 0,
        1 => t.below(a + 2),
        2 | 3 => t.below(40),
        4 | 5 => t.below(200),
        6 => t.below(600),
        _ => 8 * t.below(64),
    };
    let route = t.route(3);
    let mut v0 = gen_value(ty, &mut t, &mut fuel);
    // how the initial state comes into being: 0 = new_in_place(emplacer), 1 = default_in_place,
    // 2 = a (possibly non-canonical) reference-encoded image mapped with from_mut_bytes
    let init_route = match t.below(10) {
        0 | 1 if sh.consts().has_default => 1,
        2 | 3 if cfg.prop != "C05" => 2,
        _ => 0,
    };
    if init_route == 1 {
        v0 = default_value(ty);
    }
    let mut style = super::images::TapeStyle::from_tape(&mut t);
    let slack_room = if init_route == 2 && !style.canonical() { 4 * a * (1 + t.below(4)) } else { 0 };
    let n = model::size_of(ty, &v0) + extra + slack_room;
    if n > 8000 || model::encode(ty, &v0, n, 0, &mut Canonical).is_err() {
        st.label("skipped: initial value not representable / too large");
        return Ok(None);
    }
    let mut buf = Guarded::new_aligned(n, a, 0, t.chance(1, 4));
    garbage(&mut buf, &mut Tape::new(&[3, tape.first().copied().unwrap_or(1) | 1, 7]));
    let addr = buf.addr();
    let prop = cfg.prop;
    let mut stop: Option<Stop> = None;
    let mut outcome = HistOutcome {
        steps: 0,
        grew: false,
        shrank: false,
        refused_nonempty: false,
        assign_failed: false,
        push_pop_push: false,
        edited_nonlast: false,
        full_and_empty: false,
        hit_len_max: false,
        odd_extent: false,
        sibling_target: false,
        trace: vec![],
        initial: v0.show(),
        buffer: n,
    };
    let mut stats_evals = 0u64;
    let mut labels: Vec<&'static str> = vec![];

    let buf_ref = &buf as *const Guarded;
    if init_route == 2 {
        // reference-encode first (non-canonical packings allowed), then map the bytes
        let img = match model::encode(ty, &v0, n, 0x3c, &mut style) {
            Ok(i) => i,
            Err(_) => match model::encode(ty, &v0, n, 0x3c, &mut Canonical) {
                Ok(i) => i,
                Err(_) => return Ok(None),
            },
        };
        buf.fill(&img.bytes);
        labels.push("initial state mapped from a reference-encoded image");
    } else if init_route == 1 {
        labels.push("initial state from default_in_place");
    }
    let r = lib(|| {
        let session: &mut dyn FnMut(&mut dyn Live) = &mut |live: &mut dyn Live| {
            let check_canaries = || unsafe { (*buf_ref).check() };
            let mut abs = v0.clone();
            let mut flex_phase: std::collections::HashMap<Vec<u16>, u8> = Default::default();
            let mut seen_full = false;
            let mut seen_empty = false;
            let mut last_clause = Clause::AssignOk;
            // does the running property own the semantics of the step that led to the current state?
            let mut step_owned = false;
            let mut after_refusal = false;
            let mut first = true;
            for stepno in 0..=nsteps {
                // ---- observe the state
                let bytes = peek(addr, n);
                let dec = match model::decode(ty, &bytes, 0) {
                    Ok(d) => d,
                    Err(r) => {
                        stop = Some(if step_owned {
                            Stop::Violation(Violation {
                                key: "invalid-bytes".into(),
                                msg: format!("{}: after {:?} the bytes are no longer a well-formed encoding ({:?} at [{}, {})); buffer {} bytes, initial {}", name, outcome.trace, r.kind, r.lo, r.hi, n, v0.show()),
                            })
                        } else if let Some(v) = (cfg.prop == "C05").then(|| model_free_size_check(sh, live, addr, n, a, &name, &outcome.trace)).flatten() {
                            Stop::Violation(v)
                        } else {
                            Stop::Diverged("bytes invalid after a step owned by another property")
                        });
                        return;
                    }
                };
                stats_evals += 1;
                if dec.value != abs {
                    stop = Some(if step_owned {
                        Stop::Violation(Violation {
                            key: "content".into(),
                            msg: format!("{}: after {:?} the value is {} but the sequential model says {}; buffer {} bytes, initial {}", name, outcome.trace, dec.value.show(), abs.show(), n, v0.show()),
                        })
                    } else if let Some(v) = (cfg.prop == "C05").then(|| model_free_size_check(sh, live, addr, n, a, &name, &outcome.trace)).flatten() {
                        Stop::Violation(v)
                    } else {
                        Stop::Diverged("content differs after a step owned by another property")
                    });
                    return;
                }
                // accessor view (read through the live reference)
                let out = live.read();
                if step_owned {
                    if let Err(m) = check_readout(&out, &abs, n).and_then(|_| compare_nodes(&out.nodes, &dec.nodes)) {
                        stop = Some(Stop::Violation(Violation {
                            key: "accessors".into(),
                            msg: format!("{}: after {:?}: {}; buffer {} bytes, initial {}", name, outcome.trace, m, n, v0.show()),
                        }));
                        return;
                    }
                }
                let want_size = if ty.is_sized() { model::size(ty) } else { model::round_up(dec.extent, a).max(model::min_size(ty)) };
                if dec.extent % a != 0 {
                    outcome.odd_extent = true;
                }
                if cfg.owns(Clause::Size) && (step_owned || cfg.prop == "C05") {
                    if out.size != want_size || out.size > n {
                        stop = Some(Stop::Violation(Violation {
                            key: "size".into(),
                            msg: format!("{}: after {:?} size() = {} but the reference extent is {} (size {}), buffer {} bytes, value {}", name, outcome.trace, out.size, dec.extent, want_size, n, abs.show()),
                        }));
                        return;
                    }
                }
                if (cfg.owns(Clause::Remap) && step_owned) || cfg.prop == "C05" {
                    if let Err(e) = live.revalidate() {
                        stop = Some(Stop::Violation(Violation {
                            key: "revalidate".into(),
                            msg: format!("{}: after {:?} validate(as_bytes()) fails: {}; value {}", name, outcome.trace, show_err(&e), abs.show()),
                        }));
                        return;
                    }
                    // re-map the first size() bytes in a fresh exact buffer
                    let sz = out.size.min(n);
                    let mut b2 = Guarded::new_aligned(sz, a, 0, false);
                    b2.fill(&bytes[..sz]);
                    match sh.from_bytes(b2.as_ref()) {
                        Ok(o2) => {
                            if o2.value != abs || (cfg.owns(Clause::Size) && o2.size != out.size) {
                                stop = Some(Stop::Violation(Violation {
                                    key: "remap".into(),
                                    msg: format!("{}: after {:?} the first size() = {} bytes re-map to {} (size {}) instead of {}", name, outcome.trace, sz, o2.value.show(), o2.size, abs.show()),
                                }));
                                return;
                            }
                        }
                        Err(e) => {
                            stop = Some(Stop::Violation(Violation {
                                key: "remap".into(),
                                msg: format!("{}: after {:?} the first size() = {} bytes do not re-map: {}; value {}", name, outcome.trace, sz, show_err(&e), abs.show()),
                            }));
                            return;
                        }
                    }
                }
                // equality against a second container with the same / different contents (C11)
                if cfg.owns(Clause::VecModel) && matches!(ty, Ty::FlatVec(..) | Ty::FlatString(_)) && (step_owned || stepno == 0) {
                    let mk = |val: &Value, fill: u8| -> Option<Vec<u8>> {
                        let n2 = model::size_of(ty, val) + 3 * a + 5;
                        let mut b2 = Guarded::new_aligned(n2, a, 0, true);
                        b2.slice().fill(fill);
                        sh.new_in_place(b2.slice(), val, &[], &mut |_| {}).ok()?;
                        Some(b2.as_ref().to_vec())
                    };
                    // the container compared with itself and with a second view of its own bytes
                    {
                        let want = values_eq(ty, &abs, &abs);
                        match live.eq_self() {
                            Some((x, y)) if x == want && y == want => {}
                            other => {
                                stop = Some(Stop::Violation(Violation {
                                    key: "equality".into(),
                                    msg: format!("{}: after {:?} comparing the container {} with itself / with a second view of the same bytes gives {:?} where element-wise equality gives {}", name, outcome.trace, abs.show(), other, want),
                                }));
                                return;
                            }
                        }
                    }
                    // same contents, different capacity, different garbage in the spare room
                    if let Some(img2) = mk(&abs, 0xA7) {
                        let mut b2 = Guarded::new_aligned(img2.len(), a, 0, false);
                        b2.fill(&img2);
                        let want = values_eq(ty, &abs, &abs);
                        match live.eq_bytes(b2.as_ref()) {
                            Some(x) if x == want => {}
                            other => {
                                stop = Some(Stop::Violation(Violation {
                                    key: "equality".into(),
                                    msg: format!("{}: after {:?} comparing the container with a second one holding the same contents {} gives {:?} where element-wise equality gives {}", name, outcome.trace, abs.show(), other, want),
                                }));
                                return;
                            }
                        }
                    }
                    // different contents: one element more
                    let mut other = abs.clone();
                    match &mut other {
                        Value::Vec(xs) => xs.push(minimal_values(match ty { Ty::FlatVec(t, _) => t, _ => unreachable!() }).remove(0)),
                        Value::Str(st) => st.push('x'),
                        _ => {}
                    }
                    if let Some(img2) = mk(&other, 0x00) {
                        let mut b2 = Guarded::new_aligned(img2.len(), a, 0, false);
                        b2.fill(&img2);
                        if live.eq_bytes(b2.as_ref()) != Some(false) {
                            stop = Some(Stop::Violation(Violation {
                                key: "equality".into(),
                                msg: format!("{}: after {:?} the container {} compares equal to {}", name, outcome.trace, abs.show(), other.show()),
                            }));
                            return;
                        }
                    }
                }
                if cfg.owns(Clause::WriteSet) {
                    if let Err(m) = check_canaries() {
                        stop = Some(Stop::Violation(Violation {
                            key: "canary".into(),
                            msg: format!("{}: after {:?}: {}", name, outcome.trace, m),
                        }));
                        return;
                    }
                }
                // full / empty bookkeeping for top-level vec / string
                if let Some(nd) = dec.nodes.first() {
                    if let Some(cap) = nd.cap {
                        let len = match &dec.value {
                            Value::Vec(x) => x.len(),
                            Value::Str(s) => s.len(),
                            _ => 0,
                        };
                        seen_full |= len == cap && cap > 0;
                        seen_empty |= len == 0;
                        if let Ty::FlatVec(_, l) | Ty::FlatString(l) = ty {
                            if len as u128 == l.max() {
                                outcome.hit_len_max = true;
                            }
                        }
                    }
                }
                outcome.full_and_empty = seen_full && seen_empty;
                first = false;
                if stepno == nsteps {
                    break;
                }

                // ---- next step
                let Some(step) = gen_step(ty, &dec, &bytes, &mut t, cfg, st) else {
                    labels.push("no step generated");
                    continue;
                };
                last_clause = match (&step.op, &step.expect) {
                    (Op::Assign(..), Expect::AssignFails { .. }) => Clause::AssignValid,
                    (Op::Assign(..) | Op::Set(_), _) => Clause::AssignOk,
                    (_, Expect::Refused) => Clause::RefusedUnchanged,
                    (op, _) => op_kind(op),
                };
                // ownership of the *operation semantics* also extends to the model clause of its kind
                let kind_clause = op_kind(&step.op);
                step_owned = cfg.owns(last_clause)
                    // a refused growth is part of the sequential model of C11 / C12 too ("growth is refused beyond the capacity")
                    || (cfg.owns(kind_clause) && last_clause != Clause::AssignValid)
                    || (cfg.owns(Clause::FlexModel) && kind_clause == Clause::VecModel && last_clause == Clause::VecModel && under_flex(ty, &abs, &step.path))
                    || (cfg.owns(Clause::RefusedUnchanged) && after_refusal && last_clause != Clause::AssignValid && kind_clause != Clause::AssignOk);
                if matches!(step.expect, Expect::Refused) {
                    after_refusal = true;
                }
                if dec.nodes.len() > 2 && !step.path.is_empty() {
                    outcome.sibling_target = true;
                }
                outcome.trace.push(step.desc.clone());
                outcome.steps += 1;
                let before = bytes;
                let res = live.mutate(&step.path, &step.op);
                stats_evals += 1;
                let after = peek(addr, n);
                // write set
                if cfg.owns(Clause::WriteSet) {
                    for i in 0..n {
                        if before[i] != after[i] && !step.allowed.iter().any(|(lo, hi)| i >= *lo && i < *hi) {
                            stop = Some(Stop::Violation(Violation {
                                key: "write-set".into(),
                                msg: format!(
                                    "{}: {:?}: byte {} changed ({:#04x} -> {:#04x}) although the operation may only touch {:?}; buffer {} bytes, initial {}",
                                    name, outcome.trace, i, before[i], after[i], step.allowed, n, v0.show()
                                ),
                            }));
                            return;
                        }
                    }
                }
                // outcome vs model
                let owner_model = step_owned;
                let mismatch = |what: String| -> Stop {
                    if owner_model {
                        Stop::Violation(Violation {
                            key: "outcome".into(),
                            msg: format!("{}: {:?}: {}; buffer {} bytes, initial {}", name, outcome.trace, what, n, v0.show()),
                        })
                    } else {
                        Stop::Diverged("operation outcome differs in a clause owned by another property")
                    }
                };
                let target_nonempty = match resolve(ty, &abs, &step.path) {
                    Some((_, Value::Vec(x))) | Some((_, Value::Flex(x))) => !x.is_empty(),
                    Some((_, Value::Str(s))) => !s.is_empty(),
                    _ => true,
                };
                match (&step.expect, &res) {
                    (_, OpOut::NA) => {
                        stop = Some(Stop::Violation(Violation {
                            key: "harness-na".into(),
                            msg: format!("harness: operation {:?} at {:?} not applicable to {}", step.op, step.path, name),
                        }));
                        return;
                    }
                    (Expect::Done(nv), OpOut::Done) => {
                        let grew_now = matches!(step.op, Op::VPush(_) | Op::VPushSlice(_) | Op::VExtend(_) | Op::SPush(_) | Op::SPushStr(_) | Op::FPush(..) | Op::FPushDefault);
                        let shrank_now = matches!(step.op, Op::VPop | Op::VTruncate(_) | Op::VClear | Op::VRemove(_) | Op::VSwapRemove(_) | Op::SClear | Op::FPop | Op::FTruncate(_) | Op::FClear);
                        let _ = Op::VIterMutFill(Value::Unit);
                        outcome.grew |= grew_now;
                        outcome.shrank |= shrank_now;
                        if matches!(step.op, Op::FPush(..) | Op::FPushDefault | Op::FPop | Op::FTruncate(_) | Op::FClear) {
                            let ph = flex_phase.entry(step.path.clone()).or_insert(0);
                            *ph = match (*ph, grew_now) {
                                (0, true) => 1,
                                (1, false) => 2,
                                (2, true) => {
                                    outcome.push_pop_push = true;
                                    3
                                }
                                (p, _) => p,
                            };
                        }
                        // editing an item of a FlexVec that is not the last one
                        for k in 0..step.path.len() {
                            if let Some((Ty::FlexVec(..), Value::Flex(items))) = resolve(ty, &abs, &step.path[..k]) {
                                if (step.path[k] as usize) + 1 < items.len() {
                                    outcome.edited_nonlast = true;
                                }
                            }
                        }
                        *resolve_mut(&mut abs, &step.path) = nv.clone();
                    }
                    (Expect::Popped(p, nv), OpOut::Popped(q)) if p == q => {
                        outcome.shrank |= p.is_some();
                        *resolve_mut(&mut abs, &step.path) = nv.clone();
                    }
                    (Expect::Removed(p, nv), OpOut::Removed(q)) if p == q => {
                        outcome.shrank = true;
                        *resolve_mut(&mut abs, &step.path) = nv.clone();
                    }
                    (Expect::Refused, OpOut::Refused | OpOut::Err(..)) => {
                        labels.push("operation refused");
                        if target_nonempty {
                            outcome.refused_nonempty = true;
                        }
                        // state must be exactly as before
                        if cfg.owns(Clause::RefusedUnchanged) {
                            // observable state is compared at the top of the next iteration (content, size, validity);
                            // here additionally: not a single content-defined byte changed
                            if let Ok(d2) = model::decode(ty, &after, 0) {
                                if d2.value != abs || d2.extent != dec.extent {
                                    stop = Some(Stop::Violation(Violation {
                                        key: "refused-changed".into(),
                                        msg: format!("{}: {:?}: the refused operation changed the container: now {} (extent {}), before {} (extent {})", name, outcome.trace, d2.value.show(), d2.extent, abs.show(), dec.extent),
                                    }));
                                    return;
                                }
                            }
                        }
                    }
                    (Expect::AssignFails { unchanged }, OpOut::Err(..)) => {
                        labels.push("assignment failed");
                        outcome.assign_failed = true;
                        if cfg.owns(Clause::AssignValid) {
                            match model::decode(ty, &after, 0) {
                                Ok(d2) => {
                                    if !*unchanged {
                                        // valid but (legitimately) changed: continue from what is there now
                                        labels.push("assignment failed: valid, content replaced");
                                        abs = d2.value.clone();
                                    } else if d2.value != abs {
                                        stop = Some(Stop::Violation(Violation {
                                            key: "assign-changed".into(),
                                            msg: format!("{}: {:?}: the target has too little room, but the failed assignment changed it: now {}, before {}", name, outcome.trace, d2.value.show(), abs.show()),
                                        }));
                                        return;
                                    }
                                }
                                Err(r) => {
                                    stop = Some(Stop::Violation(Violation {
                                        key: "assign-invalid".into(),
                                        msg: format!("{}: {:?}: after the failed assignment the target is not a valid value ({:?} at [{}, {})); before {}", name, outcome.trace, r.kind, r.lo, r.hi, abs.show()),
                                    }));
                                    return;
                                }
                            }
                        }
                    }
                    (e, r) => {
                        if !owner_model && cfg.prop == "C05" {
                            if let Some(v) = model_free_size_check(sh, live, addr, n, a, &name, &outcome.trace) {
                                stop = Some(Stop::Violation(v));
                                return;
                            }
                        }
                        stop = Some(mismatch(format!("library returned {:?} but the sequential model expects {:?}", r, e)));
                        return;
                    }
                }
            }
        };
        match init_route {
            1 => sh.default_in_place(buf.slice(), session).expect("harness: default route without default"),
            2 => sh.map_mut(buf.slice(), session),
            _ => sh.new_in_place(buf.slice(), &v0, &route, session),
        }
    });
    st.eval(stats_evals);
    for l in labels {
        st.label(l);
    }
    match r {
        Err(p) => {
            // a panic somewhere in the history: owned by the property that owns the last operation's clause
            let last = outcome.trace.last().cloned().unwrap_or_else(|| "construction".into());
            let owner = cfg.owns(Clause::VecModel) && (last.starts_with("push") || last.contains("slice") || last.contains("extend") || last.contains("resize") || last.contains("remove") || last.starts_with("pop") || last.starts_with("truncate") || last.starts_with("clear") || last.contains("] ="))
                || cfg.owns(Clause::FlexModel)
                || cfg.owns(Clause::AssignValid) && last.starts_with("assign")
                || cfg.owns(Clause::RefusedUnchanged)
                || cfg.owns(Clause::Size)
                || cfg.owns(Clause::WriteSet);
            if owner {
                return Err(Violation {
                    key: "panic".into(),
                    msg: format!("{}: history {:?} panicked: {}; buffer {} bytes, initial {}", name, outcome.trace, p, n, v0.show()),
                });
            }
            st.label("diverged: panic in a step owned by another property");
            return Ok(None);
        }
        Ok(Err(e)) => {
            st.label("skipped: construction refused");
            let _ = e;
            return Ok(None);
        }
        Ok(Ok(())) => {}
    }
    match stop {
        Some(Stop::Violation(v)) => Err(v),
        Some(Stop::Diverged(why)) => {
            st.label(&format!("diverged: {}", why));
            Ok(None)
        }
        None => {
            if cfg.owns(Clause::WriteSet) {
                if let Err(m) = buf.check() {
                    return Err(Violation {
                        key: "canary".into(),
                        msg: format!("{}: after {:?}: {}", name, outcome.trace, m),
                    });
                }
            }
            let _ = prop;
            Ok(Some(outcome))
        }
    }
}

pub fn outcome_sample(name: &str, o: &HistOutcome) -> serde_json::Value {
    json!({"shape": name, "initial": o.initial, "buffer": o.buffer, "history": o.trace})
}

/// C05's clause does not need the sequential model: whatever state the value is in (also after a step
/// whose outcome differs from the model in a clause another property owns), size() must not exceed the
/// buffer and the first size() bytes must re-map to what the accessors show, with the same size().
fn model_free_size_check(sh: &dyn DynShape, live: &mut dyn Live, addr: usize, n: usize, a: usize, name: &str, trace: &[String]) -> Option<Violation> {
    let out = live.read();
    if out.size > n {
        return Some(Violation {
            key: "size".into(),
            msg: format!("{}: after {:?} size() = {} exceeds the {} bytes the value is mapped from; value {}", name, trace, out.size, n, out.value.show()),
        });
    }
    let bytes = peek(addr, n);
    let mut b2 = Guarded::new_aligned(out.size, a, 0, false);
    b2.fill(&bytes[..out.size]);
    match sh.from_bytes(b2.as_ref()) {
        Ok(o2) if o2.value == out.value && o2.size == out.size => None,
        Ok(o2) => Some(Violation {
            key: "remap".into(),
            msg: format!("{}: after {:?} the first size() = {} bytes re-map to {} (size {}) instead of {}", name, trace, out.size, o2.value.show(), o2.size, out.value.show()),
        }),
        Err(e) => Some(Violation {
            key: "remap".into(),
            msg: format!("{}: after {:?} the first size() = {} bytes do not re-map: {}; value {}", name, trace, out.size, show_err(&e), out.value.show()),
        }),
    }
}
