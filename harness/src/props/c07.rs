//! C07 — blocking IO delivers the sent sequence under every chunking.

use super::io_common::*;
use crate::model;
use crate::pipes::*;
use crate::run::*;
use crate::tape::Tape;
use serde_json::json;

pub struct C07;

impl Property for C07 {
    fn id(&self) -> &'static str {
        "C07"
    }
    fn rule(&self) -> String {
        "case = (message shape, sequence of 0..6 generated values, max_msg_len in {largest, largest+1, .., 4*largest}, write-chunk script, read-chunk script); chunk scripts are compositions of the stream length built from interesting cut positions (message boundaries +-1, unrounded extents, header-field ends, MIN_SIZE, alignment) mixed with byte-by-byte and whole-stream; the sender runs against a scripted sink (accepts min(chunk, offered)), the receiver against a scripted source over exactly the bytes the sink accepted - a sender/receiver thread interleaving over a byte pipe is equivalent to such a pair of chunkings; \
         oracle: every send Ok; sink content == concatenation of the reference encodings (content-defined bytes; lengths = reference size()); the receiver yields exactly the sent values in order (deep read through RecvGuard), then Closed; no panic anywhere including guard drop; pipe calls within budget; \
         non-trivial = >= 2 messages, a read boundary strictly inside a message, and a message whose extent is not a multiple of ALIGN or a boundary inside trailing padding; distinct by (shape, values, max_msg_len, chunkings)"
            .into()
    }
    fn assumptions(&self) -> Vec<String> {
        vec!["threads are not used: the two sides share nothing but the byte stream, so a schedule is a pair of chunkings owned by the generator".into()]
    }
    fn applicable_shape(&self, sh: &dyn crate::glue::DynShape) -> bool {
        sh.is_message_shape()
    }
    fn config(&self, tier: Tier) -> PropConfig {
        match tier {
            Tier::Quick => PropConfig { cases: 200000, max_tape: 300, shards: 12 },
            Tier::Thorough => PropConfig { cases: 3200000, max_tape: 500, shards: 16 },
        }
    }
    fn prelude(&self, reg: &Registry, shard: u32, _nshards: u32, _tier: Tier, st: &mut Stats) -> CaseResult {
        if shard != 0 {
            return Ok(());
        }
        bulk_probe(reg, false, st)
    }
    fn run_case(&self, reg: &Registry, shape: usize, tape: &[u8], st: &mut Stats) -> CaseResult {
        let sh = &reg.shapes[shape];
        let ty = sh.ty();
        let name = ty.short();
        let mut t = Tape::new(tape);
        let mut msgs = gen_msgs_ext(ty, &mut t, 6, 400, true);
        let max_msg_len = match t.below(6) {
            0 => msgs.largest,
            1 => msgs.largest + 1,
            2 => msgs.largest + t.below(msgs.largest + 1),
            3 => 2 * msgs.largest,
            4 => 4 * msgs.largest,
            _ => msgs.largest + model::align(ty),
        };
        // a third of the cases use an explicit buffer capacity anywhere from "just holds the largest
        // message" upwards (rounded up to the alignment) instead of ::io()'s 2 * max_msg_len
        let capacity = if t.chance(1, 3) {
            let a = model::align(ty);
            Some(model::round_up(msgs.largest + t.below(msgs.largest + 2 * a + 1), a).max(model::min_size(ty)))
        } else {
            None
        };
        // explicitly built buffers are also aligned more strictly than the message needs (x1, x2, x4)
        let align_shift = capacity.map_or(0, |c| ((c / model::align(ty)) % 3) as u32);
        let total = msgs.total();
        let cuts = msgs.interesting_cuts(ty);
        let wchunks = gen_chunks(total, &cuts, &mut t);
        let routes = t.route(6);
        st.shapes_seen.insert(name.clone());
        let budget = 8 * total.max(msgs.upper_total) + 4 * wchunks.len() + 256;

        // sender
        let mut sink = ScriptSink::new(wouts(&wchunks), WOut::Accept(usize::MAX), budget);
        st.eval(1);
        msgs.install_post_ops();
        crate::io_glue::IO_CAPACITY.with(|c| c.set(capacity));
        crate::io_glue::IO_ALIGN_SHIFT.with(|c| c.set(align_shift));
        let sends = lib(|| sh.io_send_blocking(&msgs.initial, &routes, max_msg_len, &mut sink, false));
        crate::io_glue::IO_CAPACITY.with(|c| c.set(None));
        crate::io_glue::IO_ALIGN_SHIFT.with(|c| c.set(0));
        Msgs::clear_post_ops();
        let sends = match sends {
            Ok(s) => s,
            Err(p) => crate::vfail!("panic", "{}: blocking sender panicked: {}", name, p),
        };
        if let Err((k, m)) = all_sent(&name, &sends.results, msgs.values.len()) {
            crate::vfail!(k, "{} [max_msg_len {}, write chunks {:?}]", m, max_msg_len, wchunks);
        }
        match msgs.frame_stream(ty, &sink.data, msgs.values.len()) {
            Ok(starts) => msgs.starts = starts,
            Err(m) => crate::vfail!(
                "stream",
                "{}: {} [emplaced {:?}, then {:?} on the send guard, max_msg_len {}, write chunks {:?}]",
                name,
                m,
                msgs.initial.iter().map(|v| v.show()).collect::<Vec<_>>(),
                msgs.post_ops,
                max_msg_len,
                wchunks
            ),
        }
        // read chunking over the real stream
        let total = msgs.total();
        let cuts = msgs.interesting_cuts(ty);
        let rchunks = gen_chunks(total, &cuts, &mut t);
        // receiver over exactly these bytes
        let mut source = ScriptSource::new(sink.data.clone(), routs(&rchunks), ROut::Deliver(usize::MAX), budget);
        st.eval(1);
        crate::io_glue::IO_CAPACITY.with(|c| c.set(capacity));
        crate::io_glue::IO_ALIGN_SHIFT.with(|c| c.set(align_shift));
        // a third of the cases: some guards are retain()ed first ("do not remove the message"), the message
        // must then be received again
        let retain_mask = if routes[5] % 3 == 0 { routes[4] as u64 } else { 0 };
        crate::io_glue::RETAIN_MASK.with(|m| m.set(retain_mask));
        let recvs = lib(|| sh.io_recv_blocking(&mut source, max_msg_len, msgs.values.len() + 3, 0));
        crate::io_glue::RETAIN_MASK.with(|m| m.set(0));
        crate::io_glue::IO_CAPACITY.with(|c| c.set(None));
        crate::io_glue::IO_ALIGN_SHIFT.with(|c| c.set(0));
        let recvs = match recvs {
            Ok(r) => r,
            Err(p) => crate::vfail!("panic", "{}: blocking receiver panicked: {}", name, p),
        };
        if let Err((k, m)) = check_received(&name, &msgs.values, &recvs.events, true) {
            crate::vfail!(
                k,
                "{} [messages {:?} (post-ops {:?}), sizes {:?}, max_msg_len {}, read chunks {:?}, explicit buffer capacity {:?}]",
                m,
                msgs.values.iter().map(|v| v.show()).collect::<Vec<_>>(),
                msgs.post_ops,
                msgs.starts,
                max_msg_len,
                rchunks,
                capacity
            );
        }
        // a message that does not fit the send buffer is refused by the guard, nothing of it is sent
        st.eval(1);
        match oversize_probe(sh.as_ref(), &msgs, false) {
            Ok(true) => st.label("oversize message refused by the send guard"),
            Ok(false) => {}
            Err((k, m)) => crate::vfail!(k, "{}", m),
        }
        // classification
        let bounds = chunk_boundaries(&rchunks);
        let inside = bounds.iter().any(|b| !msgs.starts.contains(b));
        let in_padding = (0..msgs.values.len()).any(|i| {
            let ext = msgs.starts[i] + model::extent(ty, &msgs.values[i]);
            bounds.iter().any(|b| *b >= ext && *b < msgs.starts[i + 1])
        });
        if in_padding {
            st.label("read boundary inside trailing padding");
        }
        if capacity.is_some() {
            st.label("explicit buffer capacity (IoBuffer::new)");
        }
        if retain_mask & ((1u64 << msgs.values.len().min(63)) - 1) != 0 {
            st.label("a guard was retain()ed and the message received again");
        }
        if msgs.post_ops.iter().any(|o| !o.is_empty()) {
            st.label("message modified through the send guard before send");
        }
        if msgs.raw.iter().any(|r| r.is_some()) {
            st.label("message written as raw bytes (as_mut_bytes + assume_init)");
        }
        if msgs.raw.iter().zip(&msgs.images).any(|(r, i)| r.as_ref().map_or(false, |r| r.len() > i.bytes.len())) {
            st.label("raw image in non-canonical packing / with slack");
        }
        if msgs.values.len() >= 2 && inside && (msgs.has_padding || in_padding) {
            st.label("non-trivial");
            st.nontrivial((&name, &msgs.values, max_msg_len, &wchunks, &rchunks), || {
                json!({"shape": name, "messages": msgs.values.iter().map(|v| v.show()).collect::<Vec<_>>(), "starts": msgs.starts,
                    "max_msg_len": max_msg_len, "write_chunks": wchunks, "read_chunks": rchunks})
            });
        } else {
            st.label(if msgs.values.len() < 2 { "fewer than 2 messages" } else { "no padding / no inner boundary" });
        }
        Ok(())
    }
}
