//! C16 — portable scalars: fixed byte order, align 1, lossless, arithmetic as the native type.

use crate::desc::Ty;
use crate::run::*;
use crate::tape::Tape;
use crate::vfail;
use flatty::portable::{be, le, Bool};
use flatty::traits::{FlatUnsized, FlatValidate};
use num_traits::{Bounded, FromPrimitive, NumCast, One, Signed, ToPrimitive, Zero};
use serde_json::json;
use std::panic::{catch_unwind, AssertUnwindSafe};

pub struct C16;

fn agree<T: PartialEq + std::fmt::Debug>(what: &str, lib_side: impl FnOnce() -> T, native: impl FnOnce() -> T) -> Result<Option<T>, String> {
    let a = catch_unwind(AssertUnwindSafe(lib_side));
    let b = catch_unwind(AssertUnwindSafe(native));
    match (a, b) {
        (Ok(x), Ok(y)) => {
            if x == y {
                Ok(Some(x))
            } else {
                Err(format!("{}: portable gives {:?}, native gives {:?}", what, x, y))
            }
        }
        (Err(_), Err(_)) => Ok(None),
        (Ok(x), Err(_)) => Err(format!("{}: native panics (overflow / division by zero) but portable returns {:?}", what, x)),
        (Err(_), Ok(y)) => Err(format!("{}: portable panics but native returns {:?}", what, y)),
    }
}

macro_rules! int_checks {
    ($fname:ident, $p:ty, $n:ty, $bytes:ident, $signed:tt) => {
        fn $fname(vals: &[u128], pairs: &[(u128, u128)], st: &mut Stats) -> Result<(), String> {
            let tn = stringify!($p);
            if std::mem::align_of::<$p>() != 1 || std::mem::size_of::<$p>() != std::mem::size_of::<$n>() {
                return Err(format!("{}: align {} size {}", tn, std::mem::align_of::<$p>(), std::mem::size_of::<$p>()));
            }
            let zero = <$p as Zero>::zero();
            let one = <$p as One>::one();
            if <$n as From<$p>>::from(zero) != 0 || <$n as From<$p>>::from(one) != 1 || !zero.is_zero() || one.is_zero() {
                return Err(format!("{}: zero()/one()/is_zero() wrong", tn));
            }
            if <$n as From<$p>>::from(<$p as Bounded>::min_value()) != <$n>::MIN || <$n as From<$p>>::from(<$p as Bounded>::max_value()) != <$n>::MAX {
                return Err(format!("{}: min_value()/max_value() wrong", tn));
            }
            for &raw in vals {
                let n = raw as $n;
                let p = <$p as From<$n>>::from(n);
                st.eval(1);
                if p.to_bytes() != n.$bytes() {
                    return Err(format!("{}: {} is stored as {:?}, expected {:?}", tn, n, p.to_bytes(), n.$bytes()));
                }
                if FlatUnsized::as_bytes(&p) != &n.$bytes()[..] {
                    return Err(format!("{}: as_bytes() of {} is {:?}", tn, n, FlatUnsized::as_bytes(&p)));
                }
                if <$n as From<$p>>::from(p) != n || <$n as From<$p>>::from(<$p>::from_bytes(n.$bytes())) != n {
                    return Err(format!("{}: {} does not survive native -> portable -> native", tn, n));
                }
                if <$p as FlatValidate>::validate(&n.$bytes()).is_err() {
                    return Err(format!("{}: validate rejects {}", tn, n));
                }
                if p.is_zero() != (n == 0) {
                    return Err(format!("{}: is_zero({})", tn, n));
                }
                if p.to_u64() != n.to_u64() || p.to_i64() != n.to_i64() || p.to_usize() != n.to_usize() || p.to_i32() != n.to_i32() || p.to_u8() != n.to_u8() {
                    return Err(format!("{}: to_u64/to_i64/to_usize/to_i32/to_u8 of {} differ from native", tn, n));
                }
                let as_u64 = raw as u64;
                let as_i64 = raw as u64 as i64;
                if <$p as FromPrimitive>::from_u64(as_u64).map(<$n as From<$p>>::from) != <$n as FromPrimitive>::from_u64(as_u64)
                    || <$p as FromPrimitive>::from_i64(as_i64).map(<$n as From<$p>>::from) != <$n as FromPrimitive>::from_i64(as_i64)
                    || <$p as FromPrimitive>::from_usize(as_u64 as usize).map(<$n as From<$p>>::from) != <$n as FromPrimitive>::from_usize(as_u64 as usize)
                {
                    return Err(format!("{}: from_u64/from_i64/from_usize({:#x}) differ from native", tn, raw));
                }
                if <$p as NumCast>::from(as_u64).map(<$n as From<$p>>::from) != <$n as NumCast>::from(as_u64)
                    || <$p as NumCast>::from(as_i64).map(<$n as From<$p>>::from) != <$n as NumCast>::from(as_i64)
                    || <$p as NumCast>::from(as_i64 as f64).map(<$n as From<$p>>::from) != <$n as NumCast>::from(as_i64 as f64)
                {
                    return Err(format!("{}: NumCast::from({:#x}) differs from native", tn, raw));
                }
                if format!("{}", p) != format!("{}", n) || format!("{:?}", p) != format!("{:?}", n) {
                    return Err(format!("{}: Display/Debug of {} differ", tn, n));
                }
                int_checks!(@signed $signed, $p, $n, p, n, tn);
            }
            for &(ra, rb) in pairs {
                let (a, b) = (ra as $n, rb as $n);
                let (pa, pb) = (<$p as From<$n>>::from(a), <$p as From<$n>>::from(b));
                st.eval(1);
                let w = |op: &str| format!("{}: {} {} {}", tn, a, op, b);
                agree(&w("+"), || <$n as From<$p>>::from(pa + pb), || a + b)?;
                agree(&w("-"), || <$n as From<$p>>::from(pa - pb), || a - b)?;
                agree(&w("*"), || <$n as From<$p>>::from(pa * pb), || a * b)?;
                agree(&w("/"), || <$n as From<$p>>::from(pa / pb), || a / b)?;
                agree(&w("%"), || <$n as From<$p>>::from(pa % pb), || a % b)?;
                agree(&w("+="), || { let mut x = pa; x += pb; <$n as From<$p>>::from(x) }, || a + b)?;
                agree(&w("-="), || { let mut x = pa; x -= pb; <$n as From<$p>>::from(x) }, || a - b)?;
                agree(&w("*="), || { let mut x = pa; x *= pb; <$n as From<$p>>::from(x) }, || a * b)?;
                agree(&w("/="), || { let mut x = pa; x /= pb; <$n as From<$p>>::from(x) }, || a / b)?;
                agree(&w("%="), || { let mut x = pa; x %= pb; <$n as From<$p>>::from(x) }, || a % b)?;
                if pa.cmp(&pb) != a.cmp(&b) || pa.partial_cmp(&pb) != a.partial_cmp(&b) || (pa < pb) != (a < b) || (pa >= pb) != (a >= b) {
                    return Err(format!("{}: ordering of {} and {} differs from native", tn, a, b));
                }
                if (pa == pb) != (pa.to_bytes() == pb.to_bytes()) || (pa == pb) != (a == b) {
                    return Err(format!("{}: equality of {} and {} is not equality of the stored bytes", tn, a, b));
                }
                if std::cmp::max(pa, pb) != <$p as From<$n>>::from(std::cmp::max(a, b)) {
                    return Err(format!("{}: max({}, {})", tn, a, b));
                }
                int_checks!(@signed2 $signed, $p, $n, pa, pb, a, b, tn);
                if a != b && a != 0 {
                    st.nontrivial((tn, ra, rb), || json!({"type": tn, "a": format!("{}", a), "b": format!("{}", b)}));
                }
            }
            Ok(())
        }
    };
    (@signed true, $p:ty, $n:ty, $pv:ident, $nv:ident, $tn:ident) => {
        agree(&format!("{}: abs({})", $tn, $nv), || <$n as From<$p>>::from(Signed::abs(&$pv)), || $nv.abs())?;
        agree(&format!("{}: -({})", $tn, $nv), || <$n as From<$p>>::from(-$pv), || -$nv)?;
        if <$n as From<$p>>::from(Signed::signum(&$pv)) != $nv.signum() || Signed::is_positive(&$pv) != $nv.is_positive() || Signed::is_negative(&$pv) != $nv.is_negative() {
            return Err(format!("{}: signum/is_positive/is_negative of {}", $tn, $nv));
        }
    };
    (@signed false, $p:ty, $n:ty, $pv:ident, $nv:ident, $tn:ident) => {};
    (@signed2 true, $p:ty, $n:ty, $pa:ident, $pb:ident, $a:ident, $b:ident, $tn:ident) => {
        agree(&format!("{}: abs_sub({}, {})", $tn, $a, $b), || <$n as From<$p>>::from(Signed::abs_sub(&$pa, &$pb)), || Signed::abs_sub(&$a, &$b))?;
    };
    (@signed2 false, $p:ty, $n:ty, $pa:ident, $pb:ident, $a:ident, $b:ident, $tn:ident) => {};
}

int_checks!(le_u16, le::U16, u16, to_le_bytes, false);
int_checks!(le_u32, le::U32, u32, to_le_bytes, false);
int_checks!(le_u64, le::U64, u64, to_le_bytes, false);
int_checks!(le_i16, le::I16, i16, to_le_bytes, true);
int_checks!(le_i32, le::I32, i32, to_le_bytes, true);
int_checks!(le_i64, le::I64, i64, to_le_bytes, true);
int_checks!(be_u16, be::U16, u16, to_be_bytes, false);
int_checks!(be_u32, be::U32, u32, to_be_bytes, false);
int_checks!(be_u64, be::U64, u64, to_be_bytes, false);
int_checks!(be_i16, be::I16, i16, to_be_bytes, true);
int_checks!(be_i32, be::I32, i32, to_be_bytes, true);
int_checks!(be_i64, be::I64, i64, to_be_bytes, true);

macro_rules! float_checks {
    ($fname:ident, $p:ty, $n:ty, $u:ty, $bytes:ident) => {
        fn $fname(vals: &[u128], pairs: &[(u128, u128)], st: &mut Stats) -> Result<(), String> {
            let tn = stringify!($p);
            if std::mem::align_of::<$p>() != 1 || std::mem::size_of::<$p>() != std::mem::size_of::<$n>() {
                return Err(format!("{}: align {} size {}", tn, std::mem::align_of::<$p>(), std::mem::size_of::<$p>()));
            }
            let bits = |x: $n| x.to_bits();
            if bits(<$n as From<$p>>::from(<$p as Zero>::zero())) != bits(0.0) || bits(<$n as From<$p>>::from(<$p as One>::one())) != bits(1.0) {
                return Err(format!("{}: zero()/one() wrong", tn));
            }
            if bits(<$n as From<$p>>::from(<$p as Bounded>::min_value())) != bits(<$n>::MIN) || bits(<$n as From<$p>>::from(<$p as Bounded>::max_value())) != bits(<$n>::MAX) {
                return Err(format!("{}: min_value()/max_value() wrong", tn));
            }
            for &raw in vals {
                let n = <$n>::from_bits(raw as $u);
                let p = <$p as From<$n>>::from(n);
                st.eval(1);
                if p.to_bytes() != n.$bytes() || FlatUnsized::as_bytes(&p) != &n.$bytes()[..] {
                    return Err(format!("{}: {:?} (bits {:#x}) is stored as {:?}, expected {:?}", tn, n, raw, p.to_bytes(), n.$bytes()));
                }
                if bits(<$n as From<$p>>::from(p)) != bits(n) || bits(<$n as From<$p>>::from(<$p>::from_bytes(n.$bytes()))) != bits(n) {
                    return Err(format!("{}: bits {:#x} do not survive native -> portable -> native", tn, raw));
                }
                if p.is_zero() != n.is_zero() {
                    return Err(format!("{}: is_zero({:?})", tn, n));
                }
                if p.to_u64() != n.to_u64() || p.to_i64() != n.to_i64() || p.to_usize() != n.to_usize() {
                    return Err(format!("{}: to_u64/to_i64/to_usize of {:?} differ from native", tn, n));
                }
                let as_u64 = raw as u64;
                let as_i64 = raw as u64 as i64;
                if <$p as FromPrimitive>::from_u64(as_u64).map(|x| bits(<$n as From<$p>>::from(x))) != <$n as FromPrimitive>::from_u64(as_u64).map(bits)
                    || <$p as FromPrimitive>::from_i64(as_i64).map(|x| bits(<$n as From<$p>>::from(x))) != <$n as FromPrimitive>::from_i64(as_i64).map(bits)
                    || <$p as NumCast>::from(as_i64).map(|x| bits(<$n as From<$p>>::from(x))) != <$n as NumCast>::from(as_i64).map(bits)
                    || <$p as NumCast>::from(n).map(|x| bits(<$n as From<$p>>::from(x))) != <$n as NumCast>::from(n).map(bits)
                {
                    return Err(format!("{}: from_u64/from_i64/NumCast({:#x}) differ from native", tn, raw));
                }
                // integers that do not depend on the float's width: limits of the integer types and
                // double-rounding hazards (just beside the midpoint of two adjacent f32 values, above 2^53)
                for x in extra_ints(raw as u64) {
                    let xi = x as i64;
                    if <$p as FromPrimitive>::from_u64(x).map(|v| bits(<$n as From<$p>>::from(v))) != <$n as FromPrimitive>::from_u64(x).map(bits)
                        || <$p as FromPrimitive>::from_i64(xi).map(|v| bits(<$n as From<$p>>::from(v))) != <$n as FromPrimitive>::from_i64(xi).map(bits)
                        || <$p as FromPrimitive>::from_i64(xi.wrapping_neg()).map(|v| bits(<$n as From<$p>>::from(v))) != <$n as FromPrimitive>::from_i64(xi.wrapping_neg()).map(bits)
                        || <$p as FromPrimitive>::from_usize(x as usize).map(|v| bits(<$n as From<$p>>::from(v))) != <$n as FromPrimitive>::from_usize(x as usize).map(bits)
                        || <$p as FromPrimitive>::from_u32(x as u32).map(|v| bits(<$n as From<$p>>::from(v))) != <$n as FromPrimitive>::from_u32(x as u32).map(bits)
                        || <$p as NumCast>::from(x).map(|v| bits(<$n as From<$p>>::from(v))) != <$n as NumCast>::from(x).map(bits)
                    {
                        return Err(format!("{}: from_u64/from_i64/from_usize/from_u32/NumCast({}) differ from native", tn, x));
                    }
                }
                // negation is a pure sign-bit flip (also for NaNs), so it is compared bit-for-bit
                if bits(<$n as From<$p>>::from(-p)) != bits(-n) {
                    return Err(format!("{}: -({:?})", tn, n));
                }
            }
            for &(ra, rb) in pairs {
                let (a, b) = (<$n>::from_bits(ra as $u), <$n>::from_bits(rb as $u));
                let (pa, pb) = (<$p as From<$n>>::from(a), <$p as From<$n>>::from(b));
                st.eval(1);
                let chk = |op: &str, x: $p, y: $n| -> Result<(), String> {
                    // the bit pattern of a NaN *result* is not specified by Rust (payload propagation may differ
                    // between two evaluations of the same expression), so NaN results only have to be NaN
                    let got = <$n as From<$p>>::from(x);
                    if bits(got) != bits(y) && !(got.is_nan() && y.is_nan()) {
                        Err(format!("{}: {:?} {} {:?}: portable gives {:?}, native {:?}", tn, a, op, b, <$n as From<$p>>::from(x), y))
                    } else {
                        Ok(())
                    }
                };
                chk("+", pa + pb, a + b)?;
                chk("-", pa - pb, a - b)?;
                chk("*", pa * pb, a * b)?;
                chk("/", pa / pb, a / b)?;
                chk("%", pa % pb, a % b)?;
                let mut x = pa;
                x += pb;
                chk("+=", x, a + b)?;
                let mut x = pa;
                x -= pb;
                chk("-=", x, a - b)?;
                let mut x = pa;
                x *= pb;
                chk("*=", x, a * b)?;
                let mut x = pa;
                x /= pb;
                chk("/=", x, a / b)?;
                let mut x = pa;
                x %= pb;
                chk("%=", x, a % b)?;
                if pa.partial_cmp(&pb) != a.partial_cmp(&b) || (pa < pb) != (a < b) || (pa >= pb) != (a >= b) {
                    return Err(format!("{}: ordering of {:?} and {:?} differs from native", tn, a, b));
                }
                if (pa == pb) != (pa.to_bytes() == pb.to_bytes()) || (pa == pb) != (ra as $u == rb as $u) {
                    return Err(format!("{}: == of bits {:#x} and {:#x} is not equality of the stored bytes", tn, ra, rb));
                }
                if ra != rb {
                    st.nontrivial((tn, ra, rb), || json!({"type": tn, "a_bits": format!("{:#x}", ra), "b_bits": format!("{:#x}", rb)}));
                }
            }
            Ok(())
        }
    };
}
float_checks!(le_f32, le::F32, f32, u32, to_le_bytes);
float_checks!(le_f64, le::F64, f64, u64, to_le_bytes);
float_checks!(be_f32, be::F32, f32, u32, to_be_bytes);
float_checks!(be_f64, be::F64, f64, u64, to_be_bytes);

type CheckFn = fn(&[u128], &[(u128, u128)], &mut Stats) -> Result<(), String>;
/// (check, bits, is_float)
const TYPES: [(CheckFn, u32, bool); 16] = [
    (le_u16, 16, false),
    (le_i16, 16, false),
    (be_u16, 16, false),
    (be_i16, 16, false),
    (le_u32, 32, false),
    (le_i32, 32, false),
    (be_u32, 32, false),
    (be_i32, 32, false),
    (le_u64, 64, false),
    (le_i64, 64, false),
    (be_u64, 64, false),
    (be_i64, 64, false),
    (le_f32, 32, true),
    (be_f32, 32, true),
    (le_f64, 64, true),
    (be_f64, 64, true),
];

/// Integers for the FromPrimitive checks of the float types, derived from the case's raw value.
fn extra_ints(raw: u64) -> [u64; 8] {
    let k = 54 + (raw % 10) as u32; // 54..=63
    let m = (raw >> 8) & 0x7f_ffff;
    let room = (1u64 << (k - 53)) - 1; // distance below f64 resolution
    let d = 1 + (raw >> 40) % room;
    let mid = (1u64 << k).wrapping_add((2 * m + 1) << (k - 24));
    [
        mid.wrapping_add(d),
        mid.wrapping_sub(d),
        (1u64 << k) + (1u64 << (k - 24)) + 1,
        (1u64 << k) + 3 * (1u64 << (k - 24)) - 1,
        [u64::MAX, i64::MAX as u64, (i64::MAX as u64) + 1, u32::MAX as u64][(raw % 4) as usize],
        [(1u64 << 24) + 1, (1u64 << 25) + 3, (1u64 << 53) + 1, (1u64 << 53) - 1][((raw >> 2) % 4) as usize],
        raw.rotate_left(17) ^ 0x9E37_79B9_7F4A_7C15,
        raw,
    ]
}

fn boundary(bits: u32, float: bool) -> Vec<u128> {
    let mask: u128 = (1u128 << bits) - 1;
    let mut v: Vec<u128> = vec![0, 1, 2, 3, mask, mask - 1, mask >> 1, (mask >> 1) + 1, (mask >> 1) - 1, (mask >> 1) + 2, 0x7f, 0x80, 0xff, 0x100, 0xffff & mask, 0x8000, 10, 100];
    for k in 1..bits {
        v.push((1u128 << k) & mask);
        v.push(((1u128 << k) - 1) & mask);
        v.push(((1u128 << k) + 1) & mask);
    }
    if float {
        let (one, inf, qnan): (u128, u128, u128) = if bits == 32 { (0x3f80_0000, 0x7f80_0000, 0x7fc0_0000) } else { (0x3ff0_0000_0000_0000, 0x7ff0_0000_0000_0000, 0x7ff8_0000_0000_0000) };
        let sign = 1u128 << (bits - 1);
        v.extend([one, one | sign, sign, inf, inf | sign, qnan, qnan | sign, qnan | 0x1234, inf | 1, inf | sign | 0x77, one + 1, one - 1, 1 | sign]);
        // +-2^k at the limits of the integer types (to_u64 / to_i64 / to_usize / to_i32 / to_u8), and their neighbours
        let (bias, mant): (u128, u32) = if bits == 32 { (127, 23) } else { (1023, 52) };
        for k in [7u128, 8, 15, 16, 31, 32, 52, 53, 63, 64, 65] {
            let p = (bias + k) << mant;
            v.extend([p, p + 1, p - 1, p | sign, (p + 1) | sign, (p - 1) | sign]);
        }
        // fractions in (-1, 0) and (0, 1)
        v.extend([(bias - 1) << mant, ((bias - 1) << mant) | sign, ((bias - 1) << mant) + 1, (((bias - 1) << mant) + 1) | sign]);
    }
    v.sort();
    v.dedup();
    v
}

fn bool_checks(st: &mut Stats) -> Result<(), String> {
    if std::mem::size_of::<Bool>() != 1 || std::mem::align_of::<Bool>() != 1 {
        return Err("Bool: size/align".into());
    }
    for b in 0..=255u8 {
        st.eval(1);
        let ok = <Bool as FlatValidate>::validate(&[b]).is_ok();
        if ok != (b <= 1) {
            return Err(format!("Bool: validate([{}]) is {}", b, if ok { "Ok" } else { "Err" }));
        }
        // a Bool is validated from whatever follows it as well (field walkers hand over the rest of the slice)
        for tail in [&[0u8][..], &[1], &[2], &[0xff, 0, 1], &[7; 9]] {
            let mut v = vec![b];
            v.extend_from_slice(tail);
            st.eval(1);
            let okt = <Bool as FlatValidate>::validate(&v).is_ok();
            if okt != (b <= 1) {
                return Err(format!("Bool: validate({:?}) is {} (the bytes behind the Bool must not matter)", v, if okt { "Ok" } else { "Err" }));
            }
        }
        st.nontrivial(("Bool", b), || json!({"type": "Bool", "byte": b}));
    }
    for x in [false, true] {
        let p = Bool::from(x);
        if FlatUnsized::as_bytes(&p) != [x as u8] || bool::from(p) != x {
            return Err(format!("Bool: {} is stored as {:?}", x, FlatUnsized::as_bytes(&p)));
        }
        if bool::from(!p) != !x {
            return Err("Bool: not".into());
        }
        for y in [false, true] {
            let q = Bool::from(y);
            st.eval(1);
            if bool::from(p & q) != (x & y) || bool::from(p | q) != (x | y) || bool::from(p ^ q) != (x ^ y) {
                return Err(format!("Bool: logic operators on {} {}", x, y));
            }
            let (mut a, mut b, mut c) = (p, p, p);
            a &= q;
            b |= q;
            c ^= q;
            if bool::from(a) != (x & y) || bool::from(b) != (x | y) || bool::from(c) != (x ^ y) {
                return Err(format!("Bool: assign operators on {} {}", x, y));
            }
            if (p == q) != (x == y) || p.cmp(&q) != x.cmp(&y) {
                return Err("Bool: eq/ord".into());
            }
        }
    }
    if bool::from(Bool::default()) {
        return Err("Bool: default is not false".into());
    }
    Ok(())
}

impl Property for C16 {
    fn id(&self) -> &'static str {
        "C16"
    }
    fn rule(&self) -> String {
        "for each of the 16 portable scalar types and Bool: unary facts (align 1, size, stored bytes == native to_le_bytes/to_be_bytes via to_bytes() and as_bytes(), native -> portable -> native identity bit-for-bit, is_zero, to_u64/to_i64/to_usize, from_u64/from_i64/from_usize, NumCast, Display/Debug, Signed methods, unary minus) EXHAUSTIVELY for the four 16-bit types (all 65 536 values) and Bool validation (all 256 bytes), on a boundary set (0, +-1, MIN, MAX, powers of two +-1, +-0.0, +-inf, subnormals, NaNs with payloads and both signs) plus tape-generated values for wider types; binary operations (+ - * / % and the *Assign forms, Ord/PartialOrd, ==, max) over boundary x boundary exhaustively plus generated pairs, each evaluated on the portable type and on the native type under catch_unwind: both must give the same value or both must panic (overflow, division by zero; checked build); == must be equality of the stored bytes (NaN == NaN with equal payload, 0.0 != -0.0); \
         non-trivial = a binary case with a != b and a != 0 (filters x+0, x==x) or a Bool validation byte; distinct by (type, operands)"
            .into()
    }
    fn assumptions(&self) -> Vec<String> {
        vec!["the native Rust type on this host is the reference".into()]
    }
    fn applicable(&self, ty: &Ty) -> bool {
        matches!(ty, Ty::Bool)
    }
    fn config(&self, tier: Tier) -> PropConfig {
        match tier {
            Tier::Quick => PropConfig { cases: 250000, max_tape: 200, shards: 12 },
            Tier::Thorough => PropConfig { cases: 4000000, max_tape: 200, shards: 16 },
        }
    }
    fn prelude(&self, _reg: &Registry, shard: u32, nshards: u32, _tier: Tier, st: &mut Stats) -> CaseResult {
        if shard == 0 {
            if let Err(m) = bool_checks(st) {
                vfail!("bool", "{}", m);
            }
            st.exhaustive_parts.push("Bool: validation of all 256 byte values, all operator truth tables".into());
        }
        for (i, (f, bits, float)) in TYPES.iter().enumerate() {
            if i as u32 % nshards != shard {
                continue;
            }
            let b = boundary(*bits, *float);
            let pairs: Vec<(u128, u128)> = b.iter().flat_map(|x| b.iter().map(move |y| (*x, *y))).collect();
            if let Err(m) = f(&b, &pairs, st) {
                vfail!("scalar", "{}", m);
            }
            if *bits == 16 {
                let all: Vec<u128> = (0..=0xffffu128).collect();
                if let Err(m) = f(&all, &[], st) {
                    vfail!("scalar", "{}", m);
                }
            }
        }
        if shard == 0 {
            st.exhaustive_parts.push("all 65 536 values of le/be U16/I16 for every unary fact; boundary x boundary for every binary operation of all 16 types".into());
        }
        Ok(())
    }
    fn run_case(&self, _reg: &Registry, _shape: usize, tape: &[u8], st: &mut Stats) -> CaseResult {
        let mut t = Tape::new(tape);
        let (f, bits, float) = TYPES[t.below(16)];
        let bytes = (bits / 8) as usize;
        let b = boundary(bits, float);
        let mask: u128 = (1u128 << bits) - 1;
        let mut vals = vec![];
        let mut pairs = vec![];
        for _ in 0..6 {
            let x = if t.chance(1, 3) { b[t.below(b.len())] } else { t.u128(bytes) & mask };
            // second operand: often small (so that the native operation does not overflow), sometimes anything
            let y = match t.below(4) {
                0 => b[t.below(b.len())],
                1 => t.below(256) as u128,
                2 => (x >> (1 + t.below(bits as usize - 1))) & mask,
                _ => t.u128(bytes) & mask,
            };
            vals.push(x);
            vals.push(y);
            pairs.push((x, y));
            pairs.push((y, x));
        }
        if let Err(m) = f(&vals, &pairs, st) {
            vfail!("scalar", "{}", m);
        }
        Ok(())
    }
}
