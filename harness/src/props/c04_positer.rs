//! Direct check of `PosIter` / `fold_size!` / `fold_min_size!` on a set of type lists
//! against the arithmetic C rule.

use crate::desc::{LenTy, Prim, Ty};
use crate::model;
use crate::run::*;
use crate::vfail;
use flatty::utils::iter::{fold_min_size, fold_size, type_list, PosIter};
use flatty::FlatVec;

macro_rules! positions {
    ($a:ty) => {{
        let it = PosIter::new(type_list!($a));
        it.assert_last();
        vec![it.pos()]
    }};
    ($a:ty, $b:ty) => {{
        let it = PosIter::new(type_list!($a, $b));
        let p0 = it.pos();
        let it = it.next();
        it.assert_last();
        vec![p0, it.pos()]
    }};
    ($a:ty, $b:ty, $c:ty) => {{
        let it = PosIter::new(type_list!($a, $b, $c));
        let p0 = it.pos();
        let it = it.next();
        let p1 = it.pos();
        let it = it.next();
        it.assert_last();
        vec![p0, p1, it.pos()]
    }};
    ($a:ty, $b:ty, $c:ty, $d:ty) => {{
        let it = PosIter::new(type_list!($a, $b, $c, $d));
        let p0 = it.pos();
        let it = it.next();
        let p1 = it.pos();
        let it = it.next();
        let p2 = it.pos();
        let it = it.next();
        it.assert_last();
        vec![p0, p1, p2, it.pos()]
    }};
}

fn p(x: Prim) -> Ty {
    Ty::Prim(x)
}

pub fn check(st: &mut Stats) -> CaseResult {
    use Prim::*;
    let fv = |e: Prim, l: LenTy| Ty::FlatVec(Box::new(p(e)), l);
    macro_rules! one {
        ([$($t:ty),+], [$($d:expr),+]) => {{
            let descs: Vec<Ty> = vec![$($d),+];
            let got = match lib(|| positions!($($t),+)) { Ok(g) => g, Err(m) => vfail!("panic", "PosIter panicked: {}", m) };
            let (offs, _) = model::field_offsets(&descs);
            st.eval(1);
            if got != offs {
                vfail!("positer", "PosIter over ({}) yields positions {:?}, C rule gives {:?}", stringify!($($t),+), got, offs);
            }
            let fms = fold_min_size!(0; $($t),+);
            let want = offs.last().unwrap() + model::min_size(descs.last().unwrap());
            if fms != want {
                vfail!("fold_min_size", "fold_min_size over ({}) = {}, C rule gives {}", stringify!($($t),+), fms, want);
            }
        }};
    }
    macro_rules! sized_one {
        ([$($t:ty),+], [$($d:expr),+]) => {{
            one!([$($t),+], [$($d),+]);
            let descs: Vec<Ty> = vec![$($d),+];
            let (_, end) = model::field_offsets(&descs);
            let fs = fold_size!(0; $($t),+);
            if fs != end {
                vfail!("fold_size", "fold_size over ({}) = {}, C rule gives {}", stringify!($($t),+), fs, end);
            }
        }};
    }
    sized_one!([u8, u16, u32], [p(U8), p(U16), p(U32)]);
    sized_one!([u32, u8, u64], [p(U32), p(U8), p(U64)]);
    sized_one!([u8, u128, u8], [p(U8), p(U128), p(U8)]);
    sized_one!([u64, u8, u16, u8], [p(U64), p(U8), p(U16), p(U8)]);
    sized_one!([u8, u8, u8, u32], [p(U8), p(U8), p(U8), p(U32)]);
    sized_one!([u16, u64], [p(U16), p(U64)]);
    sized_one!([u8], [p(U8)]);
    sized_one!([u8, u64, u16], [p(U8), p(U64), p(U16)]);
    sized_one!([i16, u8, i32, u8], [p(I16), p(U8), p(I32), p(U8)]);
    sized_one!([u8, u16, u8, u128], [p(U8), p(U16), p(U8), p(U128)]);
    one!([u8, FlatVec<u64, u8>], [p(U8), fv(U64, LenTy::U8)]);
    one!([u32, FlatVec<u8, u8>], [p(U32), fv(U8, LenTy::U8)]);
    one!([u8, u16, FlatVec<u64, u32>], [p(U8), p(U16), fv(U64, LenTy::U32)]);
    one!([u64, u8, FlatVec<u16, u16>], [p(U64), p(U8), fv(U16, LenTy::U16)]);
    one!([u8, u32, u8, FlatVec<u8, u16>], [p(U8), p(U32), p(U8), fv(U8, LenTy::U16)]);
    one!([u16, u8, u8, FlatVec<u128, u8>], [p(U16), p(U8), p(U8), fv(U128, LenTy::U8)]);
    st.exhaustive_parts.push("PosIter / fold_size! / fold_min_size! on 16 hand-picked type lists".into());
    Ok(())
}
