//! C05, C11, C12, C13, C14, C18 — thin configurations of the history engine.

use super::history::*;
use crate::desc::*;
use crate::run::*;

macro_rules! hist_prop {
    ($name:ident, $id:expr, owned = [$($c:ident),*], focus = $focus:ident, steps = $steps:expr,
     quick = $q:expr, thorough = $t:expr, tape = $tape:expr,
     applicable = $app:expr, nontrivial = $nt:expr, rule = $rule:expr, assumptions = [$($as:expr),*]
     $(, prelude = $pre:expr)?) => {
        pub struct $name;
        impl Property for $name {
            fn id(&self) -> &'static str { $id }
            fn rule(&self) -> String { $rule.into() }
            fn assumptions(&self) -> Vec<String> { vec![$($as.to_string()),*] }
            fn applicable(&self, ty: &Ty) -> bool { let f: fn(&Ty) -> bool = $app; f(ty) }
            fn config(&self, tier: Tier) -> PropConfig {
                match tier {
                    Tier::Quick => PropConfig { cases: $q, max_tape: $tape, shards: 12 },
                    Tier::Thorough => PropConfig { cases: $t, max_tape: 2 * $tape, shards: 16 },
                }
            }
            $(fn prelude(&self, reg: &Registry, shard: u32, _n: u32, _tier: Tier, st: &mut Stats) -> CaseResult {
                if shard != 0 { return Ok(()); }
                let f: fn(&Registry, &mut Stats) -> CaseResult = $pre;
                f(reg, st)
            })?
            fn run_case(&self, reg: &Registry, shape: usize, tape: &[u8], st: &mut Stats) -> CaseResult {
                let sh = &reg.shapes[shape];
                let cfg = HistCfg { prop: $id, owned: &[$(Clause::$c),*], focus: Focus::$focus, max_steps: $steps };
                let name = sh.ty().short();
                st.shapes_seen.insert(name.clone());
                match run_history(sh.as_ref(), tape, &cfg, st)? {
                    None => Ok(()),
                    Some(o) => {
                        let nt: fn(&HistOutcome) -> bool = $nt;
                        if nt(&o) {
                            st.label("non-trivial history");
                            st.nontrivial((&name, &o.initial, o.buffer, &o.trace), || outcome_sample(&name, &o));
                        } else {
                            st.label("trivial history");
                        }
                        Ok(())
                    }
                }
            }
        }
    };
}

const ORACLE: &str = "after construction and after every step the real bytes are decoded by the independent reference decoder and compared with an abstract value updated by a sequential model; whether a growing operation fits is decided by the reference from the decoded capacities / FlexVec chain";

hist_prop!(C05, "C05", owned = [Size], focus = Mixed, steps = 12,
    quick = 300_000, thorough = 4_800_000, tape = 260,
    applicable = |_| true,
    nontrivial = |o| (o.grew && o.shrank) || o.odd_extent,
    rule = format!("case = (shape, value constructed with new_in_place, buffer = reference size + 0..600 spare bytes, history of 1..12 in-place mutations on any nested node: push/pop/truncate/clear/remove/resize/push_slice/extend, string pushes, FlexVec push/push_default/pop/truncate/clear, field writes, assign_in_place); {}; owned clauses: size() == reference extent rounded up to ALIGN, size() <= buffer, validate(as_bytes()) Ok, the first size() bytes copied to an exact-length guarded buffer re-map to the same content with the same size(); non-trivial = history contains a growing and a shrinking operation, or an extent that is not a multiple of ALIGN; distinct by (shape, initial value, buffer, history)", ORACLE),
    assumptions = ["values are API-reachable by construction (emplace + mutators), as the property's quantifier says"]);

hist_prop!(C11, "C11", owned = [VecModel, Remap, Size], focus = VecString, steps = 40,
    quick = 200_000, thorough = 3_200_000, tape = 500,
    applicable = |t| matches!(t, Ty::FlatVec(..) | Ty::FlatString(_)),
    nontrivial = |o| o.full_and_empty || o.hit_len_max,
    rule = format!("case = (FlatVec<T,L> / FlatString<L> instantiation from the element x length-type matrix, initial contents, buffer size up to ~64 elements beyond the contents (up to 600 bytes, so capacities above u8::MAX occur), history of 1..40 operations: push, pop, push_slice (lengths around the remaining room), extend_until_full, truncate, clear, remove, swap_remove, resize, [i] = v, push(char), push_str, in-place ASCII upper-casing, assign_in_place; arguments violating a documented stavec panic precondition are generated but not executed (label precondition_skipped)); {}; owned clauses: return value of every operation, len/capacity/remaining/is_empty consistency (capacity constant = reference capacity), contents, size(), ==/!= against a second container, validate(as_bytes()) and re-mapping after every step; non-trivial = history visits both the full and the empty state, or the length reaches the length type's maximum; distinct by (instantiation, initial value, buffer, history)", ORACLE),
    assumptions = ["stavec's documented panics (remove / swap_remove out of range, resize beyond capacity) are preconditions, not behaviour"]);

hist_prop!(C12, "C12", owned = [FlexModel, Remap], focus = Flex, steps = 30,
    quick = 200_000, thorough = 3_200_000, tape = 500,
    applicable = |t| t.any(|x| matches!(x, Ty::FlexVec(..))),
    nontrivial = |o| o.push_pop_push || o.edited_nonlast,
    rule = format!("case = (shape containing a FlexVec: item in {{sized, FlatVec, FlatString, unsized struct, unsized enum, nested FlexVec}} x offset type in {{u8..u64, portable}}, buffer up to 600 spare bytes, history of 1..30 of push(v), push_default, pop, truncate(n) for any n incl. >= len, clear, and edits of individual items through iter_mut().nth(i)); {}; owned clauses: len()/is_empty()/iter() equal the abstract sequence, pop removes exactly the last item, truncate(n) keeps exactly min(n, len), an edit changes only the edited item, pushes succeed exactly when the reference says they fit, bytes validate and re-map after every step; non-trivial = push -> (pop | truncate | clear) -> push on the same vector, or an edit of a non-last item; distinct by (shape, initial value, buffer, history)", ORACLE),
    assumptions = ["a push fits iff the sealing offset of the current last item is < L::MAX, a slot header fits and the reference encoder can place the item in the remaining region"],
    prelude = c13_wide_items);

hist_prop!(C13, "C13", owned = [RefusedUnchanged, Remap], focus = Edge, steps = 14,
    quick = 200_000, thorough = 3_200_000, tape = 400,
    applicable = |t| t.any(|x| matches!(x, Ty::FlatVec(..) | Ty::FlatString(_) | Ty::FlexVec(..))),
    nontrivial = |o| o.refused_nonempty,
    rule = format!("case = (shape with a container, state driven towards the edge: spare room drawn from a small window, push_slice / push_str lengths of exactly remaining, remaining+1, remaining-1, multi-byte chars straddling the end, FlexVec pushes of items sized around the remaining region, items >= 255 bytes with u8 offsets, nested emplacers that do not fit); {}; owned clauses: when the operation is refused the decoded value and extent are identical to before, validate/re-map still succeed, and the following operations behave exactly as the model that never saw the failed call; non-trivial = an operation was refused on a non-empty container; distinct by (shape, initial value, buffer, history)", ORACLE),
    assumptions = ["a refused operation is one the reference says does not fit; Ok results are judged by the normal step check"],
    prelude = c13_wide_items);

/// Deterministic scenarios for 16-bit offset types: the open last item is grown beyond 64 KiB, so the
/// offset that would seal it is not representable and the next push must be refused without a trace.
fn c13_wide_items(reg: &Registry, st: &mut Stats) -> CaseResult {
    use crate::buf::Guarded;
    use crate::glue::{Op, OpOut};
    use crate::model;
    for name in ["FlexVec<FlatString<le::U32>, le::U16>", "FlexVec<FlatString<u32>, u16>", "FlexVec<FlatVec<u8, be::U32>, be::U16>"] {
        let Some(idx) = reg.by_name(name) else { continue };
        let sh = &reg.shapes[idx];
        let ty = sh.ty();
        let item_ty = match ty {
            Ty::FlexVec(t, _) => (**t).clone(),
            _ => unreachable!(),
        };
        let big = |n: usize| -> Value {
            match item_ty {
                Ty::FlatString(_) => Value::Str("a".repeat(n)),
                _ => Value::Vec(vec![Value::Scalar(7); n]),
            }
        };
        for big_len in [65_520usize, 65_527, 65_528, 65_529, 65_535, 65_600] {
            let n = 66_400;
            let a = model::align(ty);
            let mut buf = Guarded::new_aligned(n, a, 0, false);
            buf.slice().fill(0x5a);
            let init = Value::Flex(vec![big(3), big(big_len)]);
            let addr = buf.addr();
            let mut verdict: Result<(), String> = Ok(());
            st.eval(1);
            let r = lib(|| {
                sh.new_in_place(buf.slice(), &init, &[], &mut |live| {
                    let before = unsafe { std::slice::from_raw_parts(addr as *const u8, n) }.to_vec();
                    let d0 = match model::decode(ty, &before, 0) {
                        Ok(d) => d,
                        Err(r) => {
                            verdict = Err(format!("freshly emplaced value does not decode: {:?}", r.kind));
                            return;
                        }
                    };
                    // does the reference say the push fits? (sealing offset of the open last item must be < L::MAX)
                    let os = model::data_offset(ty);
                    let last_size = model::round_up(model::size_of(&item_ty, &big(big_len)), a);
                    let stride = os + last_size;
                    let l_max = match ty {
                        Ty::FlexVec(_, l) => l.max(),
                        _ => 0,
                    };
                    let fits = (stride as u128) < l_max;
                    let res = live.mutate(&[], &Op::FPush(big(1), vec![]));
                    let after = unsafe { std::slice::from_raw_parts(addr as *const u8, n) }.to_vec();
                    match (fits, &res) {
                        (true, OpOut::Done) => {
                            match model::decode(ty, &after, 0) {
                                Ok(d) if d.value == Value::Flex(vec![big(3), big(big_len), big(1)]) => {}
                                Ok(d) => verdict = Err(format!("push succeeded but the vector now has {} items / wrong contents", d.value.items().len())),
                                Err(r) => verdict = Err(format!("push succeeded but the bytes are invalid: {:?} at {}", r.kind, r.lo)),
                            }
                        }
                        (false, OpOut::Err(..)) | (false, OpOut::Refused) => match model::decode(ty, &after, 0) {
                            Ok(d) if d.value == d0.value && d.extent == d0.extent => {
                                let out = live.read();
                                if out.value != d0.value {
                                    verdict = Err("after the refused push the accessors read a different value".into());
                                }
                            }
                            Ok(_) => verdict = Err("the refused push changed the vector".into()),
                            Err(r) => verdict = Err(format!("after the refused push the bytes are invalid: {:?} at {}", r.kind, r.lo)),
                        },
                        (f, r) => verdict = Err(format!("the reference says the push {} but the library returned {:?}", if f { "fits" } else { "does not fit (sealing offset not representable)" }, r)),
                    }
                })
            });
            let what = format!("{}: [3-element item, {}-element item] in {} bytes, then push of a 1-element item (sealing offset {} vs L::MAX 65535)", name, big_len, n, model::data_offset(ty) + model::round_up(model::size_of(&item_ty, &big(big_len)), a));
            match r {
                Err(p) => return Err(Violation { key: "panic".into(), msg: format!("{} panicked: {}", what, p) }),
                Ok(Err(e)) => return Err(Violation { key: "harness-wide".into(), msg: format!("harness: {}: construction failed: {:?}", what, e) }),
                Ok(Ok(())) => {}
            }
            if let Err(m) = verdict {
                return Err(Violation { key: "wide-item".into(), msg: format!("{}: {}", what, m) });
            }
            st.nontrivial((name, big_len), || serde_json::json!({"scenario": "sealing offset around u16::MAX", "shape": name, "last_item_len": big_len}));
        }
    }
    st.exhaustive_parts.push("16-bit offset types: open last item of 65 520 .. 65 600 elements, then one more push".into());
    user_default_probe(st)
}

/// An item type whose `FlatDefault` is written by hand and whose default state (12 bytes) is larger than
/// MIN_SIZE (8): `push_default` can then be refused by the item's own emplacer although the slot and
/// MIN_SIZE bytes of payload fit. The generated corpus only has the defaults the macro derives.
mod userdef {
    #[flatty::flat(sized = false)]
    pub struct UserDef {
        pub id: u32,
        pub bytes: flatty::FlatVec<u8, u8>,
    }
    impl flatty::traits::FlatDefault for UserDef {
        type DefaultEmplacer = UserDefInit<u32, flatty::vec::FromArray<u8, 4>>;
        fn default_emplacer() -> Self::DefaultEmplacer {
            UserDefInit { id: 1, bytes: flatty::vec::FromArray([0xaa; 4]) }
        }
    }
}

fn user_default_probe(st: &mut Stats) -> CaseResult {
    use crate::buf::Guarded;
    use flatty::{prelude::*, FlexVec};
    use userdef::UserDef;
    let show = |v: &FlexVec<UserDef, u8>| -> (usize, usize, Vec<(u32, Vec<u8>)>) { (v.len(), v.size(), v.iter().map(|x| (x.id, x.bytes.as_slice().to_vec())).collect()) };
    for fill in [0u8, 0xff, 0x5a] {
        for n in 0usize..=64 {
            let mut buf = Guarded::new_aligned(n, 4, 0, n % 2 == 0);
            buf.slice().fill(fill);
            st.eval(1);
            let r = lib(|| -> Result<(), String> {
                // the item type on its own: default_in_place needs 12 bytes
                {
                    let mut b2 = vec![fill; n + 4];
                    let off = b2.as_ptr().align_offset(4);
                    match UserDef::default_in_place(&mut b2[off..off + n]) {
                        Ok(x) => {
                            if n < 12 || x.id != 1 || x.bytes.as_slice() != [0xaa; 4] {
                                return Err(format!("UserDef::default_in_place into {} bytes gives id {} bytes {:?}", n, x.id, x.bytes.as_slice()));
                            }
                        }
                        Err(_) if n < 12 => {}
                        Err(e) => return Err(format!("UserDef::default_in_place into {} bytes fails: {:?}", n, e)),
                    }
                }
                let Ok(v) = FlexVec::<UserDef, u8>::default_in_place(buf.slice()) else {
                    return if n < 4 { Ok(()) } else { Err(format!("FlexVec<UserDef, u8>::default_in_place into {} bytes fails", n)) };
                };
                let mut model: Vec<(u32, Vec<u8>)> = vec![];
                loop {
                    let before = show(v);
                    let image: Vec<u8> = v.as_bytes().to_vec();
                    match v.push_default() {
                        Ok(_) => {
                            model.push((1, vec![0xaa; 4]));
                            let now = show(v);
                            if now.0 != model.len() || now.2 != model {
                                return Err(format!("after {} accepted push_default calls the vector is {:?}", model.len(), now));
                            }
                        }
                        Err(_) => {
                            let now = show(v);
                            if now != before {
                                return Err(format!("a refused push_default changed the vector: before {:?}, after {:?}", before, now));
                            }
                            // every byte that belongs to the content is as it was
                            let after: Vec<u8> = v.as_bytes().to_vec();
                            if after[..before.1] != image[..before.1] {
                                return Err(format!("a refused push_default changed content bytes of the vector ({} items)", before.0));
                            }
                            break;
                        }
                    }
                    if model.len() > 32 {
                        return Err("push_default never refuses".into());
                    }
                }
                FlexVec::<UserDef, u8>::validate(v.as_bytes()).map_err(|e| format!("after the refused push_default the vector does not validate: {:?}", e))?;
                // each accepted item needs 4 + 12 bytes (the last one 4 + 12 as well: default state of 9 bytes rounded up)
                let expect = if n < 4 { 0 } else { (n / 4 * 4) / 16 };
                if model.len() != expect {
                    return Err(format!("{} items with a 12-byte default state were accepted into {} bytes (expected {})", model.len(), n, expect));
                }
                Ok(())
            });
            match r {
                Err(p) => return Err(Violation { key: "panic".into(), msg: format!("FlexVec<UserDef, u8> in {} bytes (prefill {:#04x}): panicked: {}", n, fill, p) }),
                Ok(Err(m)) => return Err(Violation { key: "user-default".into(), msg: format!("FlexVec<UserDef, u8> in {} bytes (prefill {:#04x}): {}", n, fill, m) }),
                Ok(Ok(())) => {}
            }
            if let Err(m) = buf.check() {
                return Err(Violation { key: "canary".into(), msg: format!("FlexVec<UserDef, u8> in {} bytes: {}", n, m) });
            }
            st.nontrivial(("userdef", n, fill), || serde_json::json!({"scenario": "push_default of an item with a hand-written FlatDefault until refused", "buffer": n, "prefill": fill}));
        }
    }
    st.exhaustive_parts.push("FlexVec<UserDef, u8> (hand-written FlatDefault, default state larger than MIN_SIZE): push_default until refused, every buffer length 0..=64".into());
    Ok(())
}

hist_prop!(C14, "C14", owned = [WriteSet], focus = Mixed, steps = 14,
    quick = 200_000, thorough = 3_200_000, tape = 400,
    applicable = |t| !matches!(t, Ty::Unit),
    nontrivial = |o| o.sibling_target && o.steps > 0,
    rule = format!("case = (shape, value, buffer inside a guarded arena with 96-byte canary margins on both sides, history of constructing and mutating operations including failing ones); {}; owned clause: the whole buffer is snapshotted before each operation and every byte outside the operation's allowed write set must be unchanged afterwards - allowed = the target node's own view for container / scalar / assign operations; for FlexVec push the header of the current tail slot plus everything from the new slot to the end of the vector's region; for FlexVec pop/truncate/clear only slot headers - and all canaries must be intact; non-trivial = the value has >= 2 sibling regions and the operation targets a nested one; distinct by (shape, initial value, buffer, history)", ORACLE),
    assumptions = ["writes past the end of the arena fault on the guard page and are reported through the crash journal"]);

hist_prop!(C18, "C18", owned = [AssignValid, AssignOk, Remap], focus = Assign, steps = 8,
    quick = 200_000, thorough = 3_200_000, tape = 400,
    applicable = |t| !t.is_sized(),
    nontrivial = |o| o.assign_failed,
    rule = format!("case = (unsized shape, current value, replacement value for the root or any nested unsized node - every variant, container fills from empty to far too long -, buffer with 0..600 spare bytes so the replacement fits / misses by little / misses by a lot); {}; owned clauses: if assign_in_place returns Err the bytes still decode (validate Ok), deep read / size() do not panic, later assignments work, and - the failing part being the root of the assigned value, i.e. plain lack of room - the value is unchanged; if it returns Ok the new content reads back; non-trivial = an assignment failed; distinct by (shape, initial value, buffer, history). Failures located below already-written parts of the assigned value are a recorded known finding and excluded by construction (counted in excluded_known_findings)", ORACLE),
    assumptions = ["exact-size emplacer routes only (FromArray, FromIterator over slices, FromStr); unknown-length iterators are covered by a known-finding probe"],
    prelude = c18_probes);

/// Probes for the recorded findings of C18 (see known_findings.json / DESIGN.md section 3).
fn c18_probes(reg: &Registry, st: &mut Stats) -> CaseResult {
    use crate::buf::Guarded;
    use crate::glue::{Op, OpOut};
    use crate::model;
    let scalar = |x: u128| Value::Scalar(x);
    let bytes_vec = |xs: &[u128]| Value::Vec(xs.iter().map(|x| Value::Scalar(*x)).collect());
    // (shape, buffer, prefill, initial, replacement, route, key)
    let probes: Vec<(&str, usize, u8, Value, Value, Vec<u8>, &str)> = vec![
        (
            "AU32VecU8",
            8,
            0,
            Value::Struct(vec![scalar(1), bytes_vec(&[1, 2, 3])]),
            Value::Struct(vec![scalar(2), bytes_vec(&[9; 10])]),
            vec![],
            "C18|nested-emplacer-failure",
        ),
        (
            "AUnsizedEnum",
            12,
            0xff,
            Value::Enum(0, vec![]),
            Value::Enum(2, vec![scalar(5), bytes_vec(&[1, 2, 3])]),
            vec![],
            "C18|nested-emplacer-failure",
        ),
        (
            "FlatVec<u8, u8>",
            4,
            0,
            bytes_vec(&[1, 2, 3]),
            bytes_vec(&[7; 5]),
            vec![0xF7],
            "C18|unknown-length-iterator",
        ),
    ];
    for (name, n, fill, init, repl, route, key) in probes {
        let Some(idx) = reg.by_name(name) else { continue };
        let sh = &reg.shapes[idx];
        let ty = sh.ty();
        let mut buf = Guarded::new_aligned(n, model::align(ty), 0, false);
        buf.slice().fill(fill);
        let mut res = None;
        st.eval(1);
        let r = lib(|| {
            sh.new_in_place(buf.slice(), &init, &[], &mut |live| {
                res = Some(live.mutate(&[], &Op::Assign(repl.clone(), route.clone())));
            })
        });
        match (r, res) {
            (Ok(Ok(())), Some(OpOut::Err(..))) => {}
            (r, res) => {
                return Err(Violation {
                    key: "probe".into(),
                    msg: format!("{}: probe for {} did not run as expected: {:?} / {:?}", name, key, r.map(|x| x.map_err(|e| e.kind)), res),
                })
            }
        }
        let after = model::decode(ty, buf.as_ref(), 0);
        let reproduced = match &after {
            Ok(d) => d.value != init,
            Err(_) => true,
        };
        if reproduced {
            st.probe_hit(key);
            st.label("known finding reproduced by probe");
        } else {
            st.label("known-finding probe no longer reproduces");
        }
    }
    Ok(())
}
