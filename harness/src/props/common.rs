//! Helpers shared by the property modules.

use crate::buf::Guarded;
use crate::desc::*;
use crate::glue::{DynShape, FErr, ReadOut};
use crate::model::{self, Decoded, Node};
use crate::tape::{Fuel, Tape};
use serde_json::{json, Value as J};

pub fn compare_nodes(lib: &[Node], reference: &[Node]) -> Result<(), String> {
    for (i, (a, b)) in lib.iter().zip(reference.iter()).enumerate() {
        if a.path != b.path {
            return Err(format!("node #{}: library visits {:?}, reference {:?}", i, a.path, b.path));
        }
        if a.off != b.off {
            return Err(format!("node {:?}: address offset {} but reference layout says {}", a.path, a.off as isize, b.off));
        }
        if a.len != b.len {
            return Err(format!("node {:?}: size_of_val {} but reference view is {} bytes", a.path, a.len, b.len));
        }
        if a.cap != b.cap {
            return Err(format!("node {:?}: capacity {:?} but reference capacity {:?}", a.path, a.cap, b.cap));
        }
    }
    if lib.len() != reference.len() {
        return Err(format!("library walk visits {} nodes, reference {}", lib.len(), reference.len()));
    }
    Ok(())
}

/// Everything reachable lies inside [0, n) and containers satisfy len <= cap (len is implied by children).
pub fn nodes_inside(nodes: &[Node], n: usize) -> Result<(), String> {
    for nd in nodes {
        if nd.off > n || nd.off.checked_add(nd.len).map_or(true, |e| e > n) {
            return Err(format!(
                "node {:?} occupies [{}, {}) which is outside the {}-byte slice",
                nd.path,
                nd.off as isize,
                nd.off.wrapping_add(nd.len) as isize,
                n
            ));
        }
    }
    Ok(())
}

/// Is the value "interesting": non-empty container, non-first variant or nesting >= 2.
pub fn value_nontrivial(ty: &Ty, v: &Value) -> bool {
    fn walk(v: &Value) -> bool {
        match v {
            Value::Vec(xs) | Value::Flex(xs) => !xs.is_empty(),
            Value::Str(s) => !s.is_empty(),
            Value::Enum(i, fs) => *i > 0 || fs.iter().any(walk),
            Value::Array(xs) | Value::Struct(xs) => xs.iter().any(walk),
            _ => false,
        }
    }
    walk(v) || ty.depth() >= 2
}

/// One minimal value per top-level alternative (enum variants), smallest first by canonical size.
pub fn minimal_values(ty: &Ty) -> Vec<Value> {
    let zero = [0u8; 0];
    match ty {
        Ty::Enum(e) => {
            let mut vs: Vec<Value> = (0..e.variants.len())
                .map(|i| {
                    Value::Enum(
                        i,
                        e.variants[i].fields.iter().map(|f| minimal_values(f).remove(0)).collect(),
                    )
                })
                .collect();
            vs.sort_by_key(|v| model::size_of(ty, v));
            vs
        }
        Ty::Struct(s) => vec![Value::Struct(s.fields.iter().map(|f| minimal_values(f).remove(0)).collect())],
        Ty::Array(t, n) => vec![Value::Array((0..*n).map(|_| minimal_values(t).remove(0)).collect())],
        _ => vec![crate::tape::gen_value(ty, &mut Tape::new(&zero), &mut Fuel::small())],
    }
}

pub fn garbage(buf: &mut Guarded, t: &mut Tape) {
    let mode = t.below(4);
    let seed = t.u8();
    let s = buf.slice();
    match mode {
        0 => s.fill(0),
        1 => s.fill(0xff),
        2 => s.fill(seed),
        _ => {
            let mut x = seed as u32 | 0x100;
            for b in s.iter_mut() {
                x = x.wrapping_mul(1103515245).wrapping_add(12345);
                *b = (x >> 16) as u8;
            }
        }
    }
}

pub fn show_err(e: &FErr) -> String {
    format!("{}@{}", e.kind, e.pos)
}

pub fn sample_value(ty: &Ty, v: &Value, extra: J) -> J {
    let mut s = v.show();
    if s.len() > 300 {
        let mut cut = 300;
        while !s.is_char_boundary(cut) {
            cut -= 1;
        }
        s.truncate(cut);
        s.push_str("...");
    }
    json!({"shape": ty.short(), "value": s, "info": extra})
}

/// Read-back checks common to several properties: anomalies, value equality, as_bytes position.
pub fn check_readout(out: &ReadOut, expect: &Value, n: usize) -> Result<(), String> {
    if !out.anomalies.is_empty() {
        return Err(format!("accessors disagree with each other: {}", out.anomalies.join("; ")));
    }
    if &out.value != expect {
        return Err(format!("reads back {} but {} was specified", out.value.show(), expect.show()));
    }
    if out.bytes_off != 0 {
        return Err(format!("as_bytes() starts at offset {} of the buffer", out.bytes_off as isize));
    }
    if out.bytes_len > n {
        return Err(format!("as_bytes() has {} bytes but the buffer only {}", out.bytes_len, n));
    }
    nodes_inside(&out.nodes, n)
}

pub fn decode_ok(ty: &Ty, bytes: &[u8]) -> Result<Decoded, String> {
    model::decode(ty, bytes, 0).map_err(|r| format!("reference decoder rejects the bytes: {:?} at [{}, {})", r.kind, r.lo, r.hi))
}

pub fn dyn_name(s: &dyn DynShape) -> String {
    s.ty().short()
}
