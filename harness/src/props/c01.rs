//! C01 — validation is total.

use super::common::*;
use super::images::*;
use crate::buf::Guarded;
use crate::model;
use crate::run::*;
use crate::tape::Tape;
use crate::vfail;
use serde_json::json;

pub struct C01;

pub fn cut(b: &[u8]) -> String {
    if b.len() > 96 {
        format!("{}..({} bytes)", hex(&b[..96]), b.len())
    } else {
        hex(b)
    }
}

impl Property for C01 {
    fn id(&self) -> &'static str {
        "C01"
    }
    fn rule(&self) -> String {
        "case = (shape, byte image, address offset modulo ALIGN, flush-left/right placement in a guarded arena); images: raw bytes from a skewed alphabet (len 0..3*MIN_SIZE+64), reference-encoded valid values with point mutations / truncation / extension, valid images with one header field (length, tag, FlexVec offset, Bool) replaced by a boundary value; \
         oracle = validate, from_bytes, from_mut_bytes all return (no unwinding panic; aborts and signals are caught by the supervisor through the case journal), agree on Ok/Err and the error value, leave the slice and all canaries byte-identical, and give the same result when the bytes outside the slice are repainted; \
         non-trivial = the image passed the alignment + MIN_SIZE gate so type-specific validation ran; distinct by (shape, image, offset)"
            .into()
    }
    fn assumptions(&self) -> Vec<String> {
        vec![
            "unbounded looping inside pure validation would only be caught by the supervisor's wall-clock watchdog (exit 2, inconclusive)".into(),
            "out-of-slice reads inside the < 16 byte alignment gap next to the guard page are only seen through the outside-bytes re-run (and by ASan in the fuzz targets)".into(),
        ]
    }
    fn config(&self, tier: Tier) -> PropConfig {
        match tier {
            Tier::Quick => PropConfig { cases: 600000, max_tape: 200, shards: 12 },
            Tier::Thorough => PropConfig { cases: 9600000, max_tape: 400, shards: 16 },
        }
    }
    /// Zero-sized items under 64-bit length types: the announced length can be anything up to u64::MAX, the
    /// reference decoder cannot materialise such values, so these are checked on concrete types. (A validation
    /// that walks over the items would not return; the supervisor's watchdog then reports INCONCLUSIVE.)
    fn prelude(&self, _reg: &Registry, shard: u32, _nshards: u32, _tier: Tier, st: &mut Stats) -> CaseResult {
        if shard != 0 {
            return Ok(());
        }
        use flatty::{prelude::*, FlatVec};
        macro_rules! zst_probe {
            ($t:ty, $l:ty, $name:expr) => {
                for len in [0u64, 1, 255, 1 << 32, (1 << 63) - 1, 1 << 63, u64::MAX - 1, u64::MAX] {
                    for extra in [0usize, 8, 24] {
                        let mut img = len.to_le_bytes().to_vec();
                        img.extend(std::iter::repeat(0xA5).take(extra));
                        let mut buf = Guarded::new_aligned(img.len(), 8, 0, extra == 0);
                        buf.fill(&img);
                        st.eval(1);
                        let r = lib(|| {
                            let v = <FlatVec<$t, $l>>::validate(buf.as_ref()).is_ok();
                            let m = <FlatVec<$t, $l>>::from_bytes(buf.as_ref()).map(|x| (x.len() as u64, x.size(), x.as_bytes().len())).map_err(|e| format!("{:?}", e));
                            (v, m)
                        });
                        match r {
                            Err(p) => vfail!("panic", "{}: validate / from_bytes of a vector announcing {} zero-sized items panicked: {}", $name, len, p),
                            Ok((v, m)) => {
                                if !v || m != Ok((len, 8, 8)) {
                                    vfail!(
                                        "zero-sized-items",
                                        "{}: 8-byte header announcing {} zero-sized items (+{} further bytes): validate -> {}, from_bytes -> {:?}; expected Ok and (len {}, size() 8, as_bytes() 8 bytes): zero-sized items take no room",
                                        $name,
                                        len,
                                        extra,
                                        if v { "Ok" } else { "Err" },
                                        m,
                                        len
                                    );
                                }
                            }
                        }
                        if let Err(m) = buf.check() {
                            vfail!("canary", "{}: {}", $name, m);
                        }
                        st.nontrivial(($name, len, extra), || json!({"shape": $name, "announced_len": len, "extra_bytes": extra}));
                    }
                }
            };
        }
        zst_probe!((), u64, "FlatVec<(), u64>");
        zst_probe!([u16; 0], usize, "FlatVec<[u16; 0], usize>");
        zst_probe!((), flatty::portable::le::U64, "FlatVec<(), le::U64>");
        Ok(())
    }
    fn run_case(&self, reg: &Registry, shape: usize, tape: &[u8], st: &mut Stats) -> CaseResult {
        let sh = &reg.shapes[shape];
        let ty = sh.ty();
        let name = ty.short();
        let mut t = Tape::new(tape);
        let a = model::align(ty);
        let mis = if t.chance(1, 5) { t.below(a) } else { 0 };
        let flush_left = t.chance(1, 4);
        let img = gen_image(ty, &mut t, 11);
        let n = img.bytes.len();
        st.shapes_seen.insert(name.clone());
        let mut buf = Guarded::new(n, mis, flush_left);
        buf.fill(&img.bytes);
        st.eval(3);
        let r1 = match lib(|| sh.validate(buf.as_ref())) {
            Ok(r) => r,
            Err(p) => vfail!("panic", "{}: validate({}) at address offset {} panicked: {}", name, cut(&img.bytes), mis, p),
        };
        let r2 = match lib(|| sh.from_bytes_only(buf.as_ref())) {
            Ok(r) => r,
            Err(p) => vfail!("panic", "{}: from_bytes({}) at address offset {} panicked: {}", name, cut(&img.bytes), mis, p),
        };
        let r3 = match lib(|| sh.from_mut_bytes_only(buf.slice())) {
            Ok(r) => r,
            Err(p) => vfail!("panic", "{}: from_mut_bytes({}) at address offset {} panicked: {}", name, cut(&img.bytes), mis, p),
        };
        if r1 != r2 || r1 != r3 {
            vfail!(
                "disagree",
                "{}: on {} validate -> {:?}, from_bytes -> {:?}, from_mut_bytes -> {:?}",
                name,
                cut(&img.bytes),
                r1,
                r2,
                r3
            );
        }
        // an accepted slice is mapped to a reference that lies inside it (and can be read in full)
        if r2.is_ok() {
            match lib(|| sh.from_bytes_extent(buf.as_ref())) {
                Err(p) => vfail!("panic", "{}: reading as_bytes() of from_bytes({}) panicked: {}", name, cut(&img.bytes), p),
                Ok(Err(e)) => vfail!("disagree", "{}: from_bytes({}) succeeds once and then fails with {}", name, cut(&img.bytes), show_err(&e)),
                Ok(Ok((sov, abl, off))) => {
                    if sov > n || off < 0 || off as usize + abl > n {
                        vfail!(
                            "outside",
                            "{}: from_bytes of the {}-byte slice {} gives a reference of size_of_val {} whose as_bytes() covers [{}, {}): it reaches outside the slice",
                            name,
                            n,
                            cut(&img.bytes),
                            sov,
                            off,
                            off + abl as isize
                        );
                    }
                }
            }
        }
        if buf.as_ref() != &img.bytes[..] {
            vfail!("modified", "{}: validation modified the slice {}", name, cut(&img.bytes));
        }
        if let Err(m) = buf.check() {
            vfail!("canary", "{}: validation of {}: {}", name, cut(&img.bytes), m);
        }
        // outside bytes must not matter
        buf.repaint_outside(0x5a);
        st.eval(1);
        let r4 = match lib(|| sh.validate(buf.as_ref())) {
            Ok(r) => r,
            Err(p) => vfail!("panic", "{}: validate({}) panicked after repainting outside bytes: {}", name, cut(&img.bytes), p),
        };
        if r4 != r1 {
            vfail!(
                "outside-dependence",
                "{}: validate({}) gives {:?} but {:?} when the bytes outside the slice are different",
                name,
                cut(&img.bytes),
                r1,
                r4
            );
        }
        if let Err(m) = buf.check_repainted(0x5a) {
            vfail!("canary", "{}: validation of {}: {}", name, cut(&img.bytes), m);
        }
        let gate = mis % a == 0 && n >= model::min_size(ty);
        st.label(img.class);
        if gate {
            st.label(if r1.is_ok() { "passed gate, accepted" } else { "passed gate, rejected" });
            st.nontrivial((&name, &img.bytes, mis), || {
                json!({"shape": name, "image": cut(&img.bytes), "class": img.class, "offset": mis, "result": format!("{:?}", r1)})
            });
        } else {
            st.label("stopped at the alignment/size gate");
        }
        Ok(())
    }
}
