pub mod common;
pub mod images;
pub mod c01;
pub mod c02;
pub mod c03;
pub mod c04;
pub mod c04_positer;

use crate::run::Property;

pub fn all() -> Vec<&'static dyn Property> {
    vec![&c01::C01, &c02::C02, &c03::C03, &c04::C04]
}
