pub mod common;
pub mod images;
pub mod c01;
pub mod c02;
pub mod c03;
pub mod c04;
pub mod c06;
pub mod c07;
pub mod c08;
pub mod c09;
pub mod c10;
pub mod io_common;
pub mod c15;
pub mod c16;
pub mod c17;
pub mod c19;
pub mod c20;
pub mod hist_props;
pub mod history;
pub mod c04_positer;

use crate::run::Property;

pub fn all() -> Vec<&'static dyn Property> {
    vec![&c01::C01, &c02::C02, &c03::C03, &c04::C04, &c06::C06, &c07::C07, &c08::C08, &c09::C09, &c10::C10, &c15::C15, &c16::C16, &c17::C17, &c19::C19, &c20::C20, &hist_props::C05, &hist_props::C11, &hist_props::C12, &hist_props::C13, &hist_props::C14, &hist_props::C18]
}
