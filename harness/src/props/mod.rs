pub mod common;
pub mod c03;
pub mod c04;
pub mod c04_positer;

use crate::run::Property;

pub fn all() -> Vec<&'static dyn Property> {
    vec![&c03::C03, &c04::C04]
}
