//! Generators of byte images: raw, valid (reference-encoded), mutated, boundary-substituted.

use crate::desc::*;
use crate::model::{self, FieldKind, HeaderField, Image, Style};
use crate::tape::{gen_value, skew_byte, Fuel, Tape};

pub struct TapeStyle {
    pub zero_term: Vec<bool>,
    pub slack: Vec<usize>,
    zi: usize,
    si: usize,
}
impl TapeStyle {
    pub fn from_tape(t: &mut Tape) -> TapeStyle {
        // one byte decides whether non-canonical packing is used at all
        if t.chance(1, 3) {
            TapeStyle {
                zero_term: (0..6).map(|_| t.bool()).collect(),
                slack: (0..8).map(|_| if t.chance(1, 3) { 1 + t.below(3) } else { 0 }).collect(),
                zi: 0,
                si: 0,
            }
        } else {
            TapeStyle {
                zero_term: vec![],
                slack: vec![],
                zi: 0,
                si: 0,
            }
        }
    }
    pub fn canonical(&self) -> bool {
        self.zero_term.is_empty() && self.slack.is_empty()
    }
}
impl Style for TapeStyle {
    fn flex_zero_term(&mut self) -> bool {
        let r = self.zero_term.get(self.zi).copied().unwrap_or(false);
        self.zi += 1;
        r
    }
    fn flex_slack(&mut self) -> usize {
        let r = self.slack.get(self.si).copied().unwrap_or(0);
        self.si += 1;
        r
    }
}

pub struct GenImage {
    pub bytes: Vec<u8>,
    pub class: &'static str,
    /// the value the image was derived from (before mutation), if any
    pub value: Option<Value>,
    pub fields: Vec<HeaderField>,
}

/// A valid image of a generated value: (value, image, total length).
pub fn valid_image(ty: &Ty, t: &mut Tape, fuel: Fuel, extra_max: usize) -> Option<(Value, Image)> {
    let mut fuel = fuel;
    let mut style = TapeStyle::from_tape(t);
    let extra = t.below(extra_max + 1);
    let fill = if t.bool() { 0 } else { t.u8() };
    let v = gen_value(ty, t, &mut fuel);
    // non-canonical packing needs room for slack and terminators
    let need = model::size_of(ty, &v);
    let slack_room = if style.canonical() { 0 } else { 4 * model::align(ty) * (1 + t.below(4)) };
    let n = need + extra + slack_room;
    if n > 16_000 {
        return None;
    }
    match model::encode(ty, &v, n, fill, &mut style) {
        Ok(img) => Some((v, img)),
        Err(_) => model::encode(ty, &v, need + extra, fill, &mut model::Canonical).ok().map(|i| (v, i)),
    }
}

fn write_field(bytes: &mut [u8], f: &HeaderField, x: u128) {
    if f.off + f.size <= bytes.len() {
        model::put_uint(&mut bytes[f.off..f.off + f.size], x, f.be);
    }
}

/// Replace one header field by a boundary value. Returns false if there is no field.
pub fn substitute_boundary(bytes: &mut [u8], fields: &[HeaderField], t: &mut Tape) -> bool {
    let cands: Vec<&HeaderField> = fields.iter().filter(|f| f.kind != FieldKind::Utf8).collect();
    if cands.is_empty() {
        return false;
    }
    let f = cands[t.below(cands.len())];
    let width_max: u128 = if f.size >= 16 { u128::MAX } else { (1u128 << (8 * f.size)) - 1 };
    let k = t.below(8);
    let x: u128 = match &f.kind {
        FieldKind::Bool => [0u128, 1, 2, 255, 128, 3, 254, 127][k],
        FieldKind::Tag { variants } => {
            let n = *variants as u128;
            [0, n.saturating_sub(1), n, n + 1, width_max, width_max - 1, 0x80, 0x100 & width_max][k]
        }
        FieldKind::Len { cap } => {
            let c = *cap as u128;
            [0, c.saturating_sub(1), c, c + 1, width_max, width_max - 1, c + 2, 1][k]
        }
        FieldKind::Offset { remaining, header, max } => {
            let r = *remaining as u128;
            let h = *header as u128;
            [0, h.saturating_sub(1), h, r, r + 1, *max - 1, *max, h + 1][k]
        }
        FieldKind::Utf8 => unreachable!(),
    };
    write_field(bytes, f, x & width_max);
    true
}

pub fn gen_image(ty: &Ty, t: &mut Tape, valid_bias: usize) -> GenImage {
    let ms = model::min_size(ty);
    let class = t.below(16);
    // classes 0..valid_bias are derived from valid images
    if class >= valid_bias {
        let len = t.below(3 * ms + 65);
        let bytes: Vec<u8> = (0..len).map(|_| skew_byte(t, len)).collect();
        return GenImage {
            bytes,
            class: "raw",
            value: None,
            fields: vec![],
        };
    }
    let a = model::align(ty);
    let fuel = if t.chance(1, 16) { Fuel::big() } else { Fuel::small() };
    let Some((v, img)) = valid_image(ty, t, fuel, a + 9) else {
        return GenImage {
            bytes: vec![],
            class: "raw",
            value: None,
            fields: vec![],
        };
    };
    let mut bytes = img.bytes;
    let fields = img.fields;
    let m = t.below(12);
    let class = match m {
        0..=3 => "valid",
        4 | 5 => {
            let k = 1 + t.below(4);
            for _ in 0..k {
                if !bytes.is_empty() {
                    let i = t.below(bytes.len().min(65535));
                    bytes[i] = skew_byte(t, bytes.len());
                }
            }
            "valid+point-mutations"
        }
        6 | 7 => {
            let k = t.below(bytes.len() + 1);
            bytes.truncate(k);
            "valid+truncated"
        }
        8 => {
            let k = 1 + t.below(24);
            for _ in 0..k {
                let b = t.u8();
                bytes.push(b);
            }
            "valid+extended"
        }
        _ => {
            if substitute_boundary(&mut bytes, &fields, t) {
                "valid+boundary-field"
            } else {
                "valid"
            }
        }
    };
    GenImage {
        bytes,
        class,
        value: Some(v),
        fields,
    }
}
