//! C02 — from_bytes accepts exactly the well-formed encodings; consistent view.

use super::c01::cut;
use super::common::*;
use super::images::*;
use crate::buf::Guarded;
use crate::model;
use crate::run::*;
use crate::tape::Tape;
use crate::vfail;
use serde_json::json;

pub struct C02;

impl Property for C02 {
    fn id(&self) -> &'static str {
        "C02"
    }
    fn rule(&self) -> String {
        "case = (shape, byte image as in C01 with weights shifted to valid / truncated / extended / boundary-substituted images, address offset); \
         oracle = from_bytes(b).is_ok() == independent reference decoder accepts b (aligned, lengths <= capacity, tags in range, Bool 0/1, UTF-8, FlexVec offsets in bounds and aligned, nested items valid in exactly their own region); on accept: deep read == decoded value, every visited node at the reference offset with the reference view size and capacity and inside the slice, as_bytes() starts at b[0], validate(as_bytes()) Ok, size() == reference extent rounded up and <= len, from_mut_bytes / FlatWrap::from_wrapped_bytes agree; \
         non-trivial = accepted with a non-empty container / non-first variant, or rejected for a reason other than alignment / MIN_SIZE; distinct by (shape, image, offset)"
            .into()
    }
    fn assumptions(&self) -> Vec<String> {
        vec!["'well-formed' is the reference decoder's reading of the documented format (harness/src/model.rs)".into()]
    }
    fn config(&self, tier: Tier) -> PropConfig {
        match tier {
            Tier::Quick => PropConfig { cases: 600000, max_tape: 200, shards: 12 },
            Tier::Thorough => PropConfig { cases: 9600000, max_tape: 400, shards: 16 },
        }
    }
    fn run_case(&self, reg: &Registry, shape: usize, tape: &[u8], st: &mut Stats) -> CaseResult {
        let sh = &reg.shapes[shape];
        let ty = sh.ty();
        let name = ty.short();
        let mut t = Tape::new(tape);
        let a = model::align(ty);
        let mis = if t.chance(1, 10) { t.below(a) } else { 0 };
        let flush_left = t.chance(1, 4);
        let img = gen_image(ty, &mut t, 14);
        let n = img.bytes.len();
        st.shapes_seen.insert(name.clone());
        let mut buf = Guarded::new(n, mis, flush_left);
        buf.fill(&img.bytes);
        let reference = model::decode(ty, &img.bytes, mis);
        st.eval(1);
        let got = match lib(|| sh.from_bytes(buf.as_ref())) {
            Ok(r) => r,
            Err(p) => vfail!("panic", "{}: from_bytes({}) or reading the result panicked: {}", name, cut(&img.bytes), p),
        };
        st.label(img.class);
        match (&got, &reference) {
            (Err(e0), Err(r)) => {
                st.label("rejected by both");
                // the other mapping entry points must refuse it as well, with the same error
                st.eval(2);
                match lib(|| (sh.from_mut_bytes_only(buf.slice()), sh.wrapped_only(buf.as_ref()))) {
                    Err(p) => vfail!("panic", "{}: from_mut_bytes / FlatWrap::from_wrapped_bytes on {} panicked: {}", name, cut(&img.bytes), p),
                    Ok((m, w)) => {
                        if m.as_ref().err() != Some(e0) || w.as_ref().err() != Some(e0) {
                            vfail!(
                                "routes",
                                "{}: from_bytes rejects {} with {} ({:?}), but from_mut_bytes gives {:?} and FlatWrap::from_wrapped_bytes {:?}",
                                name,
                                cut(&img.bytes),
                                show_err(e0),
                                r.kind,
                                m,
                                w
                            );
                        }
                    }
                }
                if !matches!(r.kind, model::RejKind::Misaligned) && !(n < model::min_size(ty)) {
                    st.nontrivial((&name, &img.bytes, mis), || {
                        json!({"shape": name, "image": cut(&img.bytes), "class": img.class, "verdict": format!("rejected: {:?}", r.kind)})
                    });
                }
                return Ok(());
            }
            (Ok(_), Err(r)) => vfail!(
                "accepts-malformed",
                "{}: from_bytes accepts {} (offset {}) but it is not a well-formed encoding: {:?} at bytes [{}, {})",
                name,
                cut(&img.bytes),
                mis,
                r.kind,
                r.lo,
                r.hi
            ),
            (Err(e), Ok(d)) => vfail!(
                "rejects-wellformed",
                "{}: from_bytes rejects {} with {} but it is the well-formed encoding of {}",
                name,
                cut(&img.bytes),
                show_err(e),
                d.value.show()
            ),
            (Ok(_), Ok(_)) => {}
        }
        let out = got.unwrap();
        let dec = reference.unwrap();
        st.label("accepted by both");
        if let Err(m) = check_readout(&out, &dec.value, n) {
            vfail!("view", "{}: from_bytes({}): {}", name, cut(&img.bytes), m);
        }
        if let Err(m) = compare_nodes(&out.nodes, &dec.nodes) {
            vfail!("view-layout", "{}: from_bytes({}): {}", name, cut(&img.bytes), m);
        }
        let want_size = model::round_up(dec.extent, a).max(if ty.is_sized() { model::size(ty) } else { 0 });
        if out.size != want_size || out.size > n {
            vfail!(
                "size",
                "{}: from_bytes({}) = {}: size() = {} but the reference extent is {} (rounded {}), slice has {} bytes",
                name,
                cut(&img.bytes),
                dec.value.show(),
                out.size,
                dec.extent,
                want_size,
                n
            );
        }
        // the other mapping routes
        st.eval(2);
        let mut out2 = None;
        let mut reval = None;
        match lib(|| {
            sh.map_mut(buf.slice(), &mut |live| {
                out2 = Some(live.read());
                reval = Some(live.revalidate());
            })
        }) {
            Err(p) => vfail!("panic", "{}: from_mut_bytes({}) or reading the result panicked: {}", name, cut(&img.bytes), p),
            Ok(Err(e)) => vfail!("routes", "{}: from_bytes accepts {} but from_mut_bytes rejects it: {}", name, cut(&img.bytes), show_err(&e)),
            Ok(Ok(())) => {}
        }
        if out2.as_ref().unwrap().value != dec.value {
            vfail!("routes", "{}: from_mut_bytes reads {} where from_bytes read {}", name, out2.unwrap().value.show(), dec.value.show());
        }
        if let Some(Err(e)) = reval {
            vfail!(
                "revalidate",
                "{}: from_bytes({}) succeeded but validate(as_bytes()) of the result fails: {}",
                name,
                cut(&img.bytes),
                show_err(&e)
            );
        }
        match lib(|| sh.from_wrapped_bytes(buf.as_ref())) {
            Err(p) => vfail!("panic", "{}: FlatWrap::from_wrapped_bytes panicked: {}", name, p),
            Ok(Err(e)) => vfail!("routes", "{}: from_bytes accepts {} but FlatWrap::from_wrapped_bytes rejects it: {}", name, cut(&img.bytes), show_err(&e)),
            Ok(Ok(o3)) => {
                if o3.value != dec.value {
                    vfail!("routes", "{}: FlatWrap view reads {} where from_bytes read {}", name, o3.value.show(), dec.value.show());
                }
            }
        }
        if buf.as_ref() != &img.bytes[..] {
            vfail!("modified", "{}: mapping modified the slice {}", name, cut(&img.bytes));
        }
        if let Err(m) = buf.check() {
            vfail!("canary", "{}: mapping {}: {}", name, cut(&img.bytes), m);
        }
        if value_nontrivial(ty, &dec.value) {
            st.nontrivial((&name, &img.bytes, mis), || {
                json!({"shape": name, "image": cut(&img.bytes), "class": img.class, "verdict": "accepted", "value": dec.value.show()})
            });
        }
        Ok(())
    }
}
