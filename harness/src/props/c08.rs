//! C08 — async IO delivers the same sequence under every chunking and poll schedule.

use super::io_common::*;
use crate::io_glue::SendRes;
use crate::model;
use crate::pipes::*;
use crate::run::*;
use crate::tape::Tape;
use serde_json::json;

pub struct C08;

fn sprinkle_w(chunks: &[usize], t: &mut Tape) -> Vec<WOut> {
    let mut v = vec![];
    for c in chunks {
        let k = if t.chance(1, 3) { 1 + t.below(3) } else { 0 };
        for _ in 0..k {
            v.push(WOut::Pending);
        }
        v.push(WOut::Accept(*c));
    }
    v
}
fn sprinkle_r(chunks: &[usize], t: &mut Tape) -> Vec<ROut> {
    let mut v = vec![];
    for c in chunks {
        let k = if t.chance(1, 3) { 1 + t.below(3) } else { 0 };
        for _ in 0..k {
            v.push(ROut::Pending);
        }
        v.push(ROut::Deliver(*c));
    }
    v
}

impl Property for C08 {
    fn id(&self) -> &'static str {
        "C08"
    }
    fn rule(&self) -> String {
        "case = (message shape, 0..5 values, max_msg_len, chunkings as in C07, placement of Poll::Pending among poll_write / poll_read / poll_flush results, and either (a) split: sender future against a scripted AsyncWrite, then receiver future against a scripted AsyncRead, or (b) joined: sender task and receiver task over a bounded in-memory pipe of capacity c >= 1, polled in the order given by a generated schedule with spurious polls, then fair round-robin over woken tasks) on a hand-written deterministic executor with counting wakers; \
         oracle: delivered sequence == sent sequence (nothing lost, duplicated, reordered, altered), then Closed; for every completed send all size() bytes of that message were written and a successful poll_flush follows the last write before completion (pipe event log); completion: total polls <= #Pending + #pipe operations + constant, a Pending without wake-up or both tasks idle is the deterministic 'did not complete' verdict; \
         non-trivial = >= 2 messages and >= 1 Pending strictly inside a message on each side (split) or >= 1 task switch inside a message (joined); distinct by (shape, values, scripts, schedule)"
            .into()
    }
    fn assumptions(&self) -> Vec<String> {
        vec!["schedules are sampled, not enumerated; the executor and the pipes are owned by the harness so each sample is reproducible".into()]
    }
    fn applicable_shape(&self, sh: &dyn crate::glue::DynShape) -> bool {
        sh.is_message_shape()
    }
    fn config(&self, tier: Tier) -> PropConfig {
        match tier {
            Tier::Quick => PropConfig { cases: 150000, max_tape: 400, shards: 12 },
            Tier::Thorough => PropConfig { cases: 2400000, max_tape: 600, shards: 16 },
        }
    }
    fn prelude(&self, reg: &Registry, shard: u32, _nshards: u32, _tier: Tier, st: &mut Stats) -> CaseResult {
        if shard != 0 {
            return Ok(());
        }
        bulk_probe(reg, true, st)
    }
    fn run_case(&self, reg: &Registry, shape: usize, tape: &[u8], st: &mut Stats) -> CaseResult {
        let sh = &reg.shapes[shape];
        let ty = sh.ty();
        let name = ty.short();
        let mut t = Tape::new(tape);
        let joined = t.bool();
        let msgs = gen_msgs_ext(ty, &mut t, 5, 300, true);
        let max_msg_len = match t.below(4) {
            0 => msgs.largest,
            1 => msgs.largest + 1,
            2 => 2 * msgs.largest,
            _ => msgs.largest + model::align(ty),
        };
        let capacity = if t.chance(1, 3) {
            let a = model::align(ty);
            Some(model::round_up(msgs.largest + t.below(msgs.largest + 2 * a + 1), a).max(model::min_size(ty)))
        } else {
            None
        };
        // explicitly built buffers are also aligned more strictly than the message needs (x1, x2, x4)
        let align_shift = capacity.map_or(0, |c| ((c / model::align(ty)) % 3) as u32);
        struct CapGuard;
        impl Drop for CapGuard {
            fn drop(&mut self) {
                crate::io_glue::IO_CAPACITY.with(|c| c.set(None));
        crate::io_glue::IO_ALIGN_SHIFT.with(|c| c.set(0));
            }
        }
        let _cap_guard = CapGuard;
        crate::io_glue::IO_CAPACITY.with(|c| c.set(capacity));
        crate::io_glue::IO_ALIGN_SHIFT.with(|c| c.set(align_shift));
        // budgets are computed from an upper bound of what goes over the wire (see Msgs::upper_total)
        let total = msgs.total();
        let wire_upper = total.max(msgs.upper_total);
        let cuts = msgs.interesting_cuts(ty);
        let wchunks = gen_chunks(total, &cuts, &mut t);
        let rchunks = gen_chunks(total, &cuts, &mut t);
        let routes = t.route(5);
        let wscript = sprinkle_w(&wchunks, &mut t);
        let rscript = sprinkle_r(&rchunks, &mut t);
        let fscript: Vec<bool> = (0..msgs.values.len() + 1).map(|_| t.chance(1, 3)).collect();
        st.shapes_seen.insert(name.clone());
        let pendings = wscript.iter().filter(|w| **w == WOut::Pending).count() + rscript.iter().filter(|r| **r == ROut::Pending).count() + fscript.len();
        let ctx = |extra: String| {
            format!(
                "[messages {:?} (post-ops on the send guard: {:?}), starts {:?}, max_msg_len {}, explicit buffer capacity {:?}, write script {:?}, read script {:?}, flush script {:?}{}]",
                msgs.values.iter().map(|v| v.show()).collect::<Vec<_>>(),
                msgs.post_ops,
                msgs.starts,
                max_msg_len,
                capacity,
                wscript,
                rscript,
                fscript,
                extra
            )
        };
        if !joined {
            let budget = 4 * wire_upper + wscript.len() + rscript.len() + 64;
            let max_polls = pendings + 4 * wire_upper + 32;
            let mut sink = ScriptSink::new(wscript.clone(), WOut::Accept(usize::MAX), budget);
            sink.flush_script = fscript.clone();
            st.eval(1);
            msgs.install_post_ops();
            let srep = lib(|| sh.io_async_send(&msgs.initial, &routes, max_msg_len, &mut sink, max_polls, false));
            Msgs::clear_post_ops();
            let srep = match srep {
                Ok(x) => x,
                Err(p) => crate::vfail!("panic", "{}: async sender panicked: {} {}", name, p, ctx(String::new())),
            };
            let (sends, stalled) = (srep.results, srep.stalled);
            if stalled {
                crate::vfail!("stalled", "{}: an async send did not complete within {} polls although the pipe made progress {}", name, max_polls, ctx(String::new()));
            }
            if let Err((k, m)) = all_sent(&name, &sends, msgs.values.len()) {
                crate::vfail!(k, "{} {}", m, ctx(String::new()));
            }
            let real_starts = match msgs.frame_stream(ty, &sink.data, msgs.values.len()) {
                Ok(s) => s,
                Err(m) => crate::vfail!("stream", "{}: {} {}", name, m, ctx(String::new())),
            };
            // flush after the last write of every message
            let mut written = 0;
            let mut mi = 0;
            let mut need_flush = false;
            for e in &sink.log {
                match e {
                    Event::Write { accepted, .. } => {
                        if need_flush {
                            crate::vfail!("no-flush", "{}: message #{} was completed without a successful poll_flush before the next write {}", name, mi - 1, ctx(String::new()));
                        }
                        written += accepted;
                        while mi < msgs.values.len() && written >= real_starts[mi + 1] {
                            mi += 1;
                            need_flush = true;
                        }
                    }
                    Event::Flush => need_flush = false,
                    _ => {}
                }
            }
            if need_flush {
                crate::vfail!("no-flush", "{}: the last send completed without a successful poll_flush after its last write {}", name, ctx(String::new()));
            }
            let mut source = ScriptSource::new(sink.data.clone(), rscript.clone(), ROut::Deliver(usize::MAX), budget);
            st.eval(1);
            let retain_mask = if routes[4] % 3 == 0 { routes[3] as u64 } else { 0 };
            crate::io_glue::RETAIN_MASK.with(|m| m.set(retain_mask));
            let r = lib(|| sh.io_async_recv(&mut source, max_msg_len, msgs.values.len() + 3, 0, max_polls + 2 * msgs.values.len()));
            crate::io_glue::RETAIN_MASK.with(|m| m.set(0));
            if retain_mask & ((1u64 << msgs.values.len().min(63)) - 1) != 0 {
                st.label("a guard was retain()ed and the message received again");
            }
            let (recvs, rstalled) = match r {
                Ok(x) => (x.events, x.stalled),
                Err(p) => crate::vfail!("panic", "{}: async receiver panicked: {} {}", name, p, ctx(String::new())),
            };
            if rstalled {
                crate::vfail!("stalled", "{}: an async recv did not complete within {} polls {}", name, max_polls, ctx(String::new()));
            }
            if let Err((k, m)) = check_received(&name, &msgs.values, &recvs, true) {
                crate::vfail!(k, "{} {}", m, ctx(String::new()));
            }
            // Pending strictly inside a message on each side?
            let inside = |positions: Vec<usize>| positions.iter().any(|p| !real_starts.contains(p));
            let mut wpos = vec![];
            let mut acc = 0;
            for e in &sink.log {
                match e {
                    Event::Write { accepted, .. } => acc += accepted,
                    Event::WritePending => wpos.push(acc),
                    _ => {}
                }
            }
            let mut rpos = vec![];
            let mut acc = 0;
            for e in &source.log {
                match e {
                    Event::Read { delivered, .. } => acc += delivered,
                    Event::ReadPending => rpos.push(acc),
                    _ => {}
                }
            }
            if msgs.values.len() >= 2 && inside(wpos) && inside(rpos) {
                st.label("split: non-trivial");
                st.nontrivial((&name, &msgs.values, max_msg_len, format!("{:?}{:?}{:?}", wscript, rscript, fscript)), || {
                    json!({"setup": "split", "shape": name, "messages": msgs.values.iter().map(|v| v.show()).collect::<Vec<_>>(),
                        "write_script": format!("{:?}", wscript), "read_script": format!("{:?}", rscript), "flush_pending": fscript})
                });
            } else {
                st.label("split: trivial");
            }
        } else {
            let cap = match t.below(5) {
                0 => 1,
                1 => 2,
                2 => 1 + t.below(16),
                3 => 17,
                _ => 1 + t.below(2 * msgs.largest + 2),
            };
            let slen = t.below(120);
            let schedule = t.take(slen);
            let max_polls = 8 * (wire_upper + 1) + pendings * 2 + schedule.len() + 64;
            st.eval(1);
            msgs.install_post_ops();
            let retain_mask = if routes[4] % 3 == 0 { routes[3] as u64 } else { 0 };
            crate::io_glue::RETAIN_MASK.with(|m| m.set(retain_mask));
            let rep = lib(|| sh.io_async_joined(&msgs.initial, &routes, max_msg_len, cap, wscript.clone(), rscript.clone(), fscript.clone(), &schedule, max_polls + 2 * msgs.values.len()));
            crate::io_glue::RETAIN_MASK.with(|m| m.set(0));
            Msgs::clear_post_ops();
            let rep = match rep {
                Ok(r) => r,
                Err(p) => crate::vfail!("panic", "{}: joined async run panicked: {} {}", name, p, ctx(format!(", capacity {}, schedule {:?}", cap, schedule))),
            };
            let extra = format!(", capacity {}, schedule {:?}, polls {}", cap, schedule, rep.join.polls);
            if let Some(p) = &rep.panic {
                crate::vfail!("panic", "{}: a task panicked: {} {}", name, p, ctx(extra));
            }
            if rep.join.deadlock || rep.join.budget_exceeded {
                crate::vfail!(
                    "stalled",
                    "{}: tasks did not complete (deadlock: {}, poll budget exceeded: {}, completed {:?}) {}",
                    name,
                    rep.join.deadlock,
                    rep.join.budget_exceeded,
                    rep.join.completed,
                    ctx(extra)
                );
            }
            if let Err((k, m)) = all_sent(&name, &rep.sends, msgs.values.len()) {
                crate::vfail!(k, "{} {}", m, ctx(extra));
            }
            if let Err(m) = msgs.frame_stream(ty, &rep.written, msgs.values.len()) {
                crate::vfail!("stream", "{}: {} {}", name, m, ctx(extra));
            }
            if let Err((k, m)) = check_received(&name, &msgs.values, &rep.recvs, true) {
                crate::vfail!(k, "{} {}", m, ctx(extra));
            }
            let _ = SendRes::Sent;
            if msgs.values.len() >= 2 && rep.join.switches_inside >= 2 {
                st.label("joined: non-trivial");
                st.nontrivial((&name, &msgs.values, cap, &schedule, format!("{:?}{:?}", wscript, rscript)), || {
                    json!({"setup": "joined", "shape": name, "messages": msgs.values.iter().map(|v| v.show()).collect::<Vec<_>>(),
                        "capacity": cap, "schedule_len": schedule.len(), "polls": rep.join.polls, "task_switches": rep.join.switches_inside})
                });
            } else {
                st.label("joined: trivial");
            }
        }
        st.eval(1);
        match oversize_probe(sh.as_ref(), &msgs, true) {
            Ok(true) => st.label("oversize message refused by the send guard"),
            Ok(false) => {}
            Err((k, m)) => crate::vfail!(k, "{}", m),
        }
        if msgs.raw.iter().any(|r| r.is_some()) {
            st.label("message written as raw bytes (as_mut_bytes + assume_init)");
        }
        if msgs.post_ops.iter().any(|o| !o.is_empty()) {
            st.label("message modified through the send guard before send");
        }
        Ok(())
    }
}
