//! C20 — default_in_place produces the documented default state.

use super::common::*;
use crate::buf::Guarded;
use crate::desc::*;
use crate::model::{self, Canonical};
use crate::run::*;
use crate::tape::Tape;
use crate::vfail;
use serde_json::json;

pub struct C20;

impl Property for C20 {
    fn id(&self) -> &'static str {
        "C20"
    }
    fn rule(&self) -> String {
        "case = (shape with default = true / a Default impl, EVERY buffer length from the reference size of the default state to +3*ALIGN+9, two different garbage prefills from the tape); \
         oracle: default_in_place Ok; deep read == documented default (zeros, empty containers, every field's default, the #[default] variant); validate Ok; size() == reference size of that state; both prefills give identical reads and identical content-defined bytes == reference encoding; for sized shapes the read equals Default::default(); \
         non-trivial = shape contains a container or an enum; distinct by (shape, length, prefill)"
            .into()
    }
    fn assumptions(&self) -> Vec<String> {
        vec!["the documented default of an enum is its #[default] variant; of a container the empty state".into()]
    }
    fn applicable(&self, ty: &Ty) -> bool {
        ty.has_default() && !matches!(ty, Ty::Array(..))
    }
    fn config(&self, tier: Tier) -> PropConfig {
        match tier {
            Tier::Quick => PropConfig { cases: 30000, max_tape: 16, shards: 12 },
            Tier::Thorough => PropConfig { cases: 480000, max_tape: 16, shards: 16 },
        }
    }
    fn run_case(&self, reg: &Registry, shape: usize, tape: &[u8], st: &mut Stats) -> CaseResult {
        let sh = &reg.shapes[shape];
        let ty = sh.ty();
        let name = ty.short();
        let a = model::align(ty);
        let c = sh.consts();
        if !c.has_default {
            vfail!("harness-default", "harness: {} is described as default-able but the glue has no default route", name);
        }
        let dv = default_value(ty);
        if let Some(nd) = &c.native_default {
            st.eval(1);
            if nd != &dv {
                vfail!("native-default", "{}: Default::default() is {} but the documented default is {}", name, nd.show(), dv.show());
            }
        }
        let size_ref = model::size_of(ty, &dv);
        let mut t = Tape::new(tape);
        let fills = [t.take(2), t.take(2)];
        st.shapes_seen.insert(name.clone());
        for n in size_ref..=size_ref + 3 * a + 9 {
            let img = match model::encode(ty, &dv, n, 0, &mut Canonical) {
                Ok(i) => i,
                Err(_) => vfail!("harness-default", "harness: default of {} does not fit its own reference size", name),
            };
            let mut reads = vec![];
            let mut bytes = vec![];
            for f in &fills {
                let mut buf = Guarded::new_aligned(n, a, 0, n % 2 == 0);
                garbage(&mut buf, &mut Tape::new(&[3, f[0] | 1, f[1]]));
                if f[0] % 3 == 0 {
                    buf.slice().fill(f[1]);
                }
                let mut out = None;
                let mut reval = None;
                st.eval(1);
                let r = lib(|| {
                    sh.default_in_place(buf.slice(), &mut |live| {
                        out = Some(live.read());
                        reval = Some(live.revalidate());
                    })
                    .unwrap()
                });
                let what = format!("{}: default_in_place into {} bytes", name, n);
                match r {
                    Err(p) => vfail!("panic", "{} panicked: {}", what, p),
                    Ok(Err(e)) => vfail!("refused", "{} failed: {} (reference size of the default state: {})", what, show_err(&e), size_ref),
                    Ok(Ok(())) => {}
                }
                if let Err(m) = buf.check() {
                    vfail!("canary", "{}: {}", what, m);
                }
                let o = out.unwrap();
                if let Err(m) = check_readout(&o, &dv, n) {
                    vfail!("wrong-default", "{}: {}", what, m);
                }
                if o.size != size_ref {
                    vfail!("size", "{}: size() = {} but the default state {} needs {}", what, o.size, dv.show(), size_ref);
                }
                if let Some(Err(e)) = reval {
                    vfail!("revalidate", "{}: result does not validate: {}", what, show_err(&e));
                }
                let got = buf.as_ref().to_vec();
                for i in 0..n {
                    if img.mask[i] && got[i] != img.bytes[i] {
                        vfail!("image", "{}: byte {} is {:#04x}, reference encoding of the default has {:#04x}", what, i, got[i], img.bytes[i]);
                    }
                }
                reads.push(o.value);
                bytes.push(got);
            }
            if reads[0] != reads[1] {
                vfail!("prefill-dependence", "{}: default_in_place into {} bytes depends on the previous contents", name, n);
            }
            if ty.any(|x| matches!(x, Ty::Enum(_) | Ty::FlatVec(..) | Ty::FlatString(_) | Ty::FlexVec(..))) {
                st.nontrivial((&name, n, &fills), || json!({"shape": name, "len": n, "default": dv.show(), "size": size_ref}));
                st.label("has container or enum");
            } else {
                st.label("plain");
            }
        }
        Ok(())
    }
}
