//! C06 — framing contract: prefixes are "incomplete", extensions are the same message.

use super::c01::cut;
use super::common::*;
use super::images::*;
use crate::buf::Guarded;
use crate::model::{self, FieldKind};
use crate::run::*;
use crate::tape::{Fuel, Tape};
use crate::vfail;
use serde_json::json;

pub struct C06;

impl Property for C06 {
    fn id(&self) -> &'static str {
        "C06"
    }
    fn rule(&self) -> String {
        "case = (shape, valid value encoded by the reference encoder in canonical or non-canonical packing (0-terminated FlexVec chains, slack strides), suffix kind); m = first size() bytes; \
         oracle: for EVERY cut k in 0..size(): validate(m[..k]) placed flush against a guard page is Err(InsufficientSize), or - only when k >= reference extent, i.e. nothing but trailing padding is missing - Ok with identical content; never another error kind, never Ok with different content; for m ++ suffix (zeros, 0xFF, random, start of / whole other message): Ok, same content, same size(); \
         non-trivial = message has >= 2 header fields (length / tag / offset) and size() >= 2*ALIGN; distinct by (shape, m); exhaustive over cuts per message"
            .into()
    }
    fn assumptions(&self) -> Vec<String> {
        vec!["messages are bounded to 600 bytes".into()]
    }
    fn config(&self, tier: Tier) -> PropConfig {
        match tier {
            Tier::Quick => PropConfig { cases: 80000, max_tape: 200, shards: 12 },
            Tier::Thorough => PropConfig { cases: 1280000, max_tape: 400, shards: 16 },
        }
    }
    fn run_case(&self, reg: &Registry, shape: usize, tape: &[u8], st: &mut Stats) -> CaseResult {
        let sh = &reg.shapes[shape];
        let ty = sh.ty();
        let name = ty.short();
        let a = model::align(ty);
        let mut t = Tape::new(tape);
        let suffix_kind = t.below(6);
        let suffix_len = 1 + t.below(40);
        let fuel = if t.chance(1, 20) { Fuel::big() } else { Fuel::small() };
        let Some((v, img)) = valid_image(ty, &mut t, fuel, 0) else {
            st.label("skipped: value too large");
            return Ok(());
        };
        let dec = match decode_ok(ty, &img.bytes) {
            Ok(d) => d,
            Err(m) => vfail!("harness-decode", "harness: reference decoder rejects reference encoding of {} {}: {}", name, v.show(), m),
        };
        if dec.value != v {
            vfail!("harness-decode", "harness: reference decode(encode(v)) != v for {} {}", name, v.show());
        }
        let size = model::round_up(dec.extent, a).max(model::min_size(ty).min(img.bytes.len()));
        let size = if ty.is_sized() { model::size(ty) } else { size };
        if size > 600 || size > img.bytes.len() {
            st.label("skipped: message too long");
            return Ok(());
        }
        let m = &img.bytes[..size];
        st.shapes_seen.insert(name.clone());
        // the whole message first
        st.eval(1);
        let whole = {
            let mut buf = Guarded::new_aligned(size, a, 0, false);
            buf.fill(m);
            match lib(|| sh.from_bytes(buf.as_ref())) {
                Err(p) => vfail!("panic", "{}: from_bytes({}) panicked: {}", name, cut(m), p),
                Ok(Err(e)) => vfail!("whole", "{}: the first size() = {} bytes {} of valid {} are rejected: {}", name, size, cut(m), v.show(), show_err(&e)),
                Ok(Ok(o)) => o,
            }
        };
        if whole.value != v || whole.size != size {
            vfail!(
                "whole",
                "{}: the first {} bytes {} of valid {} read back as {} with size() {}",
                name,
                size,
                cut(m),
                v.show(),
                whole.value.show(),
                whole.size
            );
        }
        // every proper prefix
        for k in 0..size {
            let mut buf = Guarded::new_aligned(k, a, 0, false);
            buf.fill(&m[..k]);
            st.eval(1);
            let r = match lib(|| sh.from_bytes(buf.as_ref())) {
                Ok(r) => r,
                Err(p) => vfail!("panic", "{}: validating the {}-byte prefix of {} panicked: {}", name, k, cut(m), p),
            };
            match r {
                Err(e) if e.kind == "InsufficientSize" => {}
                Err(e) => vfail!(
                    "prefix-error-kind",
                    "{}: the {}-byte prefix of message {} (= {}) is rejected with {} instead of InsufficientSize",
                    name,
                    k,
                    cut(m),
                    v.show(),
                    show_err(&e)
                ),
                Ok(o) => {
                    if o.value != v {
                        vfail!(
                            "prefix-different-message",
                            "{}: the {}-byte prefix of message {} (= {}) is accepted as a different message {}",
                            name,
                            k,
                            cut(m),
                            v.show(),
                            o.value.show()
                        );
                    }
                    if k < dec.extent {
                        vfail!(
                            "prefix-accepted-early",
                            "{}: the {}-byte prefix of message {} is accepted although the content extends to byte {}",
                            name,
                            k,
                            cut(m),
                            dec.extent
                        );
                    }
                    st.label("prefix accepted: only padding missing");
                }
            }
        }
        // extension
        let mut ext = m.to_vec();
        let mut t2 = Tape::new(&tape[tape.len() / 2..]);
        let suffix: Vec<u8> = match suffix_kind {
            0 => vec![0; suffix_len],
            1 => vec![0xff; suffix_len],
            2 => (0..suffix_len).map(|_| t.u8()).collect(),
            3 => m[..suffix_len.min(size)].to_vec(),
            4 => m.to_vec(),
            _ => match valid_image(ty, &mut t2, Fuel::small(), 0) {
                Some((_, i2)) => i2.bytes,
                None => vec![1; suffix_len],
            },
        };
        ext.extend_from_slice(&suffix);
        if ext.len() < 4000 {
            let mut buf = Guarded::new_aligned(ext.len(), a, 0, t.bool());
            buf.fill(&ext);
            st.eval(1);
            match lib(|| sh.from_bytes(buf.as_ref())) {
                Err(p) => vfail!("panic", "{}: from_bytes(message ++ suffix = {}) panicked: {}", name, cut(&ext), p),
                Ok(Err(e)) => vfail!(
                    "extension-rejected",
                    "{}: message {} (= {}) followed by {} more bytes is rejected: {}",
                    name,
                    cut(m),
                    v.show(),
                    suffix.len(),
                    show_err(&e)
                ),
                Ok(Ok(o)) => {
                    if o.value != v || o.size != size {
                        vfail!(
                            "extension-different",
                            "{}: message {} (= {}, size {}) followed by {} reads as {} with size() {}",
                            name,
                            cut(m),
                            v.show(),
                            size,
                            cut(&suffix),
                            o.value.show(),
                            o.size
                        );
                    }
                }
            }
        }
        let headers = img.fields.iter().filter(|f| f.kind != FieldKind::Utf8 && f.kind != FieldKind::Bool).count();
        if headers >= 2 && size >= 2 * a {
            st.label("non-trivial message");
            st.nontrivial((&name, m), || json!({"shape": name, "message": cut(m), "value": v.show(), "size": size, "extent": dec.extent, "cuts": size}));
        } else {
            st.label("simple message");
        }
        Ok(())
    }
}
