//! C03 — emplace, read back, validate, byte-exact image.

use super::common::*;
use crate::buf::Guarded;
use crate::desc::*;
use crate::model::{self, Canonical};
use crate::run::*;
use crate::tape::{gen_value, Fuel, Tape};
use crate::vfail;
use serde_json::json;

pub struct C03;

impl Property for C03 {
    fn id(&self) -> &'static str {
        "C03"
    }
    fn rule(&self) -> String {
        "case = (shape from the generated #[flat] corpus, value generated from a choice tape, buffer = reference size + 0..3*ALIGN+17 spare bytes with garbage prefill, emplacer route); \
         oracle = new_in_place Ok, deep read-back through public accessors == specified value, validate(as_bytes()) Ok, every content-defined byte == independent reference encoder, canaries intact, re-mapping with from_bytes reads the same; \
         non-trivial = value has a non-empty container, a non-first enum variant or nesting depth >= 2; distinct by (shape, value, buffer length)"
            .into()
    }
    fn assumptions(&self) -> Vec<String> {
        vec![
            "reference encoder/layout model (harness/src/model.rs) is the documented format; cross-checked against the compiler in C04".into(),
            "only the host ABI (x86-64, little endian) is observed".into(),
        ]
    }
    fn config(&self, tier: Tier) -> PropConfig {
        match tier {
            Tier::Quick => PropConfig { cases: 300000, max_tape: 160, shards: 12 },
            Tier::Thorough => PropConfig { cases: 4800000, max_tape: 400, shards: 16 },
        }
    }
    /// The documented literal syntax on concrete types (the generic routes cannot use `flat_vec![x; N]`,
    /// which needs a constant N and a Copy element): every form of flat_vec!, on its own and inside the
    /// generated *Init types, over several garbage prefills and spare sizes.
    fn prelude(&self, _reg: &Registry, shard: u32, _nshards: u32, _tier: Tier, st: &mut Stats) -> CaseResult {
        if shard != 0 {
            return Ok(());
        }
        literal_probes(st)
    }
    fn run_case(&self, reg: &Registry, shape: usize, tape: &[u8], st: &mut Stats) -> CaseResult {
        let sh = &reg.shapes[shape];
        let ty = sh.ty();
        let mut t = Tape::new(tape);
        let a = model::align(ty);
        let extra = t.below(3 * a + 18);
        let flush_left = t.chance(1, 4);
        let route = t.route(6);
        let big = t.chance(1, 12);
        let mut fuel = if big { Fuel::big() } else { Fuel::small() };
        let gm = t.take(2);
        let v = gen_value(ty, &mut t, &mut fuel);
        let n = model::size_of(ty, &v) + extra;
        if n + 64 > crate::buf::ARENA {
            st.label("skipped: too large");
            return Ok(());
        }
        let img = match model::encode(ty, &v, n, 0, &mut Canonical) {
            Ok(i) => i,
            Err(_) => {
                // e.g. a sealed FlexVec item whose stride is not representable in the offset type (>= L::MAX,
                // the reserved end marker): no encoding of this content exists, so the emplacer must refuse it
                st.label("reference says the value is not representable");
                let mut buf = Guarded::new(n, 0, flush_left);
                st.eval(1);
                let mut out = None;
                match lib(|| sh.new_in_place(buf.slice(), &v, &route, &mut |live| out = Some(live.read()))) {
                    Err(p) => vfail!("panic", "{}: new_in_place of a value with a non-representable FlexVec offset panicked: {}", ty.short(), p),
                    Ok(Ok(())) => {
                        let got = out.map(|o| o.value.show()).unwrap_or_default();
                        vfail!(
                            "accepts-unrepresentable",
                            "{}: new_in_place({}) returned Ok although a sealed item's offset is not representable in the offset type; it reads back as {}",
                            ty.short(),
                            v.show(),
                            got
                        )
                    }
                    Ok(Err(_)) => {}
                }
                return Ok(());
            }
        };
        let mut buf = Guarded::new(n, 0, flush_left);
        garbage(&mut buf, &mut Tape::new(&gm));
        let mut out = None;
        let mut reval = None;
        st.eval(1);
        st.shapes_seen.insert(ty.short());
        let r = lib(|| {
            sh.new_in_place(buf.slice(), &v, &route, &mut |live| {
                out = Some(live.read());
                reval = Some(live.revalidate());
            })
        });
        let name = ty.short();
        match r {
            Err(p) => vfail!("panic", "{}: new_in_place({}) into {} bytes panicked: {}", name, v.show(), n, p),
            Ok(Err(e)) => vfail!(
                "refused",
                "{}: new_in_place({}) into {} bytes (reference size {}) failed: {}",
                name,
                v.show(),
                n,
                n - extra,
                show_err(&e)
            ),
            Ok(Ok(())) => {}
        }
        if let Err(m) = buf.check() {
            vfail!("canary", "{}: new_in_place({}) into {} bytes: {}", name, v.show(), n, m);
        }
        let out = out.unwrap();
        if let Err(m) = check_readout(&out, &v, n) {
            vfail!("readback", "{}: after new_in_place into {} bytes: {}", name, n, m);
        }
        if let Some(Err(e)) = reval {
            vfail!("revalidate", "{}: validate(as_bytes()) of freshly emplaced {} fails: {}", name, v.show(), show_err(&e));
        }
        let got = buf.as_ref();
        for i in 0..n {
            if img.mask[i] && got[i] != img.bytes[i] {
                vfail!(
                    "image",
                    "{}: emplaced {}: byte {} is {:#04x}, documented encoding has {:#04x}\n got {}\n ref {}",
                    name,
                    v.show(),
                    i,
                    got[i],
                    img.bytes[i],
                    hex(got),
                    hex(&img.bytes)
                );
            }
        }
        // re-map through from_bytes
        st.eval(1);
        match lib(|| sh.from_bytes(buf.as_ref())) {
            Err(p) => vfail!("panic", "{}: from_bytes on emplaced {} panicked: {}", name, v.show(), p),
            Ok(Err(e)) => vfail!("remap", "{}: from_bytes rejects freshly emplaced {}: {}", name, v.show(), show_err(&e)),
            Ok(Ok(o2)) => {
                if let Err(m) = check_readout(&o2, &v, n) {
                    vfail!("remap", "{}: re-mapped value differs: {}", name, m);
                }
            }
        }
        if value_nontrivial(ty, &v) {
            st.label(if extra == 0 { "non-trivial, exact fit" } else { "non-trivial, spare room" });
            st.nontrivial((&name, &v, n), || sample_value(ty, &v, json!({"buffer": n, "route": route})));
        } else {
            st.label("trivial value");
        }
        Ok(())
    }
}

fn literal_probes(st: &mut Stats) -> CaseResult {
    use crate::shapes::{AUnsizedEnum, AUnsizedEnumInitV2, AUnsizedStruct, AUnsizedStructInit};
    use flatty::portable::le;
    use flatty::{flat_vec, prelude::*, FlatVec};
    for fill in [0u8, 0xff, 0xa5] {
        for spare in [0usize, 1, 7, 40] {
            macro_rules! probe {
                ($ty:ty, $size:expr, $empl:expr, $what:expr, |$v:ident| $check:expr, $bytes:expr) => {{
                    let n = $size + spare;
                    let mut buf = Guarded::new(n, 0, spare % 2 == 0);
                    buf.slice().fill(fill);
                    st.eval(1);
                    let r = lib(|| match <$ty>::new_in_place(buf.slice(), $empl) {
                        Ok($v) => {
                            let ok: bool = $check;
                            let b = $v.as_bytes().to_vec();
                            let val = <$ty>::validate(&b).is_ok();
                            Ok((ok, b, val))
                        }
                        Err(e) => Err(format!("{:?}", e)),
                    });
                    let expect: Vec<i16> = $bytes; // -1 = padding
                    match r {
                        Err(p) => vfail!("panic", "{} into {} bytes panicked: {}", $what, n, p),
                        Ok(Err(e)) => vfail!("refused", "{} into {} bytes (needs {}) failed: {}", $what, n, $size, e),
                        Ok(Ok((ok, b, val))) => {
                            if !ok {
                                vfail!("readback", "{} into {} bytes (prefill {:#04x}) does not read back what the literal says; bytes {}", $what, n, fill, hex(&b));
                            }
                            if !val {
                                vfail!("revalidate", "{}: as_bytes() does not validate: {}", $what, hex(&b));
                            }
                            if b.len() < expect.len() || expect.iter().zip(&b).any(|(e, g)| *e >= 0 && *e != *g as i16) {
                                vfail!("image", "{}: bytes {} but the documented encoding starts with {:?} (-1 = padding)", $what, hex(&b), expect);
                            }
                        }
                    }
                    if let Err(m) = buf.check() {
                        vfail!("canary", "{} into {} bytes: {}", $what, n, m);
                    }
                    st.nontrivial(($what, n, fill), || json!({"literal": $what, "buffer": n, "prefill": fill}));
                }};
            }
            probe!(FlatVec<u16, u8>, 12, flat_vec![7u16; 5], "flat_vec![7u16; 5]", |v| v.as_slice() == [7u16; 5], vec![5, -1, 7, 0, 7, 0, 7, 0, 7, 0, 7, 0]);
            probe!(FlatVec<u16, u8>, 2, flat_vec![7u16; 0], "flat_vec![7u16; 0]", |v| v.is_empty(), vec![0]);
            probe!(FlatVec<u8, u8>, 1, flat_vec![], "flat_vec![]", |v| v.len() == 0, vec![0]);
            probe!(FlatVec<u8, u8>, 2, flat_vec![9u8], "flat_vec![9u8]", |v| v.as_slice() == [9u8], vec![1, 9]);
            probe!(FlatVec<u8, u16>, 6, flat_vec![1u8, 2, 3,], "flat_vec![1u8, 2, 3,]", |v| v.as_slice() == [1u8, 2, 3], vec![3, 0, 1, 2, 3]);
            probe!(FlatVec<[u8; 3], u16>, 14, flat_vec![[1u8, 2, 3]; 4], "flat_vec![[1u8, 2, 3]; 4]", |v| v.as_slice() == [[1u8, 2, 3]; 4], vec![4, 0, 1, 2, 3, 1, 2, 3, 1, 2, 3, 1, 2, 3]);
            probe!(
                FlatVec<le::U32, le::U16>,
                14,
                flat_vec![le::U32::from(0x0102_0304u32); 3],
                "flat_vec![le::U32::from(0x01020304); 3]",
                |v| v.len() == 3 && v.iter().all(|x| u32::from(*x) == 0x0102_0304),
                vec![3, 0, 4, 3, 2, 1, 4, 3, 2, 1, 4, 3, 2, 1]
            );
            probe!(
                AUnsizedStruct,
                32,
                AUnsizedStructInit { f0: 1, f1: 0x0203, f2: flat_vec![0x1111_2222_3333_4444u64; 2] },
                "AUnsizedStructInit { f0: 1, f1: 0x0203, f2: flat_vec![0x1111222233334444; 2] }",
                |v| v.f0 == 1 && v.f1 == 0x0203 && v.f2.as_slice() == [0x1111_2222_3333_4444u64; 2],
                vec![1]
            );
            probe!(
                AUnsizedEnum,
                16,
                AUnsizedEnumInitV2 { f0: 0xdead_beef, f1: flat_vec![5u8; 3] },
                "AUnsizedEnumInitV2 { f0: 0xdeadbeef, f1: flat_vec![5u8; 3] }",
                |v| match v.as_ref() {
                    crate::shapes::AUnsizedEnumRef::V2 { f0, f1 } => *f0 == 0xdead_beef && f1.as_slice() == [5u8; 3],
                    _ => false,
                },
                vec![2]
            );
        }
    }
    Ok(())
}
