//! Shared pieces of the IO properties C07 - C10.

use crate::desc::*;
use crate::glue::DynShape;
use crate::io_glue::{RecvRes, SendRes};
use crate::model::{self, Canonical, Image};
use crate::pipes::*;
use crate::tape::{gen_value, Fuel, Tape};

pub struct Msgs {
    pub values: Vec<Value>,
    pub images: Vec<Image>,
    /// absolute start of each message in the stream (+ total length at the end)
    pub starts: Vec<usize>,
    pub largest: usize,
    pub has_padding: bool,
}

/// Generate a sequence of 0..max messages of the shape (each at most `limit` bytes).
pub fn gen_msgs(ty: &Ty, t: &mut Tape, max: usize, limit: usize) -> Msgs {
    let n = t.below(max + 1);
    let mut values = vec![];
    let mut images = vec![];
    let mut starts = vec![0];
    let mut largest = model::min_size(ty);
    let mut has_padding = false;
    for _ in 0..n {
        let mut fuel = Fuel { elems: 40, max_len: 10 };
        let v = gen_value(ty, t, &mut fuel);
        let size = model::size_of(ty, &v);
        if size > limit {
            continue;
        }
        let Ok(img) = model::encode(ty, &v, size, 0, &mut Canonical) else { continue };
        if model::extent(ty, &v) % model::align(ty) != 0 {
            has_padding = true;
        }
        largest = largest.max(size);
        starts.push(starts.last().unwrap() + size);
        values.push(v);
        images.push(img);
    }
    Msgs {
        values,
        images,
        starts,
        largest,
        has_padding,
    }
}

impl Msgs {
    pub fn total(&self) -> usize {
        *self.starts.last().unwrap()
    }
    /// Does the byte stream `data` consist of exactly these messages (content-defined bytes only)?
    pub fn check_stream(&self, data: &[u8], upto: usize) -> Result<(), String> {
        let want = self.starts[upto];
        if data.len() != want {
            return Err(format!("the sink holds {} bytes but the {} sent messages occupy {}", data.len(), upto, want));
        }
        for i in 0..upto {
            let img = &self.images[i];
            let base = self.starts[i];
            for k in 0..img.bytes.len() {
                if img.mask[k] && data[base + k] != img.bytes[k] {
                    return Err(format!(
                        "byte {} of the stream (byte {} of message #{} = {}) is {:#04x}, encoding has {:#04x}",
                        base + k,
                        k,
                        i,
                        self.values[i].show(),
                        data[base + k],
                        img.bytes[k]
                    ));
                }
            }
        }
        Ok(())
    }
    /// A clean byte stream of the messages (padding zero).
    pub fn stream(&self) -> Vec<u8> {
        self.images.iter().flat_map(|i| i.bytes.iter().copied()).collect()
    }
    /// Positions at which a chunk boundary is interesting.
    pub fn interesting_cuts(&self, ty: &Ty) -> Vec<usize> {
        let a = model::align(ty);
        let mut c = vec![];
        for (i, v) in self.values.iter().enumerate() {
            let s = self.starts[i];
            let e = self.starts[i + 1];
            let ext = s + model::extent(ty, v);
            for p in [s + 1, s + 2, s + a, ext.saturating_sub(1), ext, ext + 1, e.saturating_sub(1), e, e + 1, s + model::min_size(ty)] {
                if p > 0 && p < self.total() {
                    c.push(p);
                }
            }
            for f in &self.images[i].fields {
                let p = s + f.off + f.size;
                if p < self.total() {
                    c.push(p);
                }
            }
        }
        c.sort();
        c.dedup();
        c
    }
}

/// Split `total` bytes into chunk sizes according to the tape.
pub fn gen_chunks(total: usize, cuts: &[usize], t: &mut Tape) -> Vec<usize> {
    if total == 0 {
        return vec![];
    }
    let mode = t.below(8);
    let mut pos: Vec<usize> = match mode {
        0 => vec![],                                 // whole stream
        1 => (1..total).collect(),                   // byte by byte
        2 => cuts.to_vec(),                          // all interesting cuts
        _ => {
            let mut p: Vec<usize> = cuts.iter().copied().filter(|_| t.bool()).collect();
            let extra = t.below(6);
            for _ in 0..extra {
                p.push(1 + t.below(total.min(65535) - 0).min(total - 1).max(0));
            }
            p
        }
    };
    pos.retain(|p| *p > 0 && *p < total);
    pos.sort();
    pos.dedup();
    let mut out = vec![];
    let mut last = 0;
    for p in pos {
        out.push(p - last);
        last = p;
    }
    out.push(total - last);
    out
}

pub fn chunk_boundaries(chunks: &[usize]) -> Vec<usize> {
    let mut v = vec![];
    let mut p = 0;
    for c in chunks {
        p += c;
        v.push(p);
    }
    v
}

pub fn message_shapes(reg: &crate::run::Registry) -> Vec<usize> {
    (0..reg.shapes.len()).filter(|i| reg.shapes[*i].is_message_shape()).collect()
}

/// Compare the received events with the sent values. `expect_closed`: the stream ended cleanly.
pub fn check_received(name: &str, sent: &[Value], recvs: &[RecvRes], expect_closed: bool) -> Result<(), (String, String)> {
    let mut i = 0;
    for r in recvs {
        match r {
            RecvRes::Msg { value, anomalies, .. } => {
                if !anomalies.is_empty() {
                    return Err(("anomaly".into(), format!("{}: received message #{}: {}", name, i, anomalies.join("; "))));
                }
                if i >= sent.len() {
                    return Err(("extra-message".into(), format!("{}: receiver yields a message that was never sent: {}", name, value.show())));
                }
                if value != &sent[i] {
                    return Err((
                        "wrong-message".into(),
                        format!("{}: message #{} was sent as {} but received as {}", name, i, sent[i].show(), value.show()),
                    ));
                }
                i += 1;
            }
            RecvRes::Closed => {
                if i != sent.len() {
                    return Err(("lost-message".into(), format!("{}: receiver reports Closed after {} of {} messages", name, i, sent.len())));
                }
                if !expect_closed {
                    return Ok(());
                }
                return Ok(());
            }
            RecvRes::Parse(e) => return Err(("parse-error".into(), format!("{}: receiver reports a parse error {}@{} after {} of {} messages", name, e.kind, e.pos, i, sent.len()))),
            RecvRes::Read(k) => return Err(("read-error".into(), format!("{}: receiver reports a read error {:?} after {} of {} messages", name, k, i, sent.len()))),
            RecvRes::Panic(m) => return Err(("panic".into(), format!("{}: recv() panicked after {} of {} messages: {}", name, i, sent.len(), m))),
            RecvRes::DropPanic(m) => return Err(("panic".into(), format!("{}: dropping the guard of message #{} panicked: {}", name, i, m))),
        }
    }
    Err(("no-closed".into(), format!("{}: receiver never reported Closed ({} of {} messages seen)", name, i, sent.len())))
}

pub fn all_sent(name: &str, sends: &[SendRes], n: usize) -> Result<(), (String, String)> {
    for (i, s) in sends.iter().enumerate() {
        match s {
            SendRes::Sent => {}
            SendRes::Panic(m) => return Err(("panic".into(), format!("{}: sending message #{} panicked: {}", name, i, m))),
            other => return Err(("send-failed".into(), format!("{}: sending message #{} failed: {:?}", name, i, other))),
        }
    }
    if sends.len() != n {
        return Err(("send-failed".into(), format!("{}: only {} of {} sends completed", name, sends.len(), n)));
    }
    Ok(())
}

pub fn dyn_ty(s: &dyn DynShape) -> &Ty {
    s.ty()
}
pub fn wouts(chunks: &[usize]) -> Vec<WOut> {
    chunks.iter().map(|c| WOut::Accept(*c)).collect()
}
pub fn routs(chunks: &[usize]) -> Vec<ROut> {
    chunks.iter().map(|c| ROut::Deliver(*c)).collect()
}
