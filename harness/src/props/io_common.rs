//! Shared pieces of the IO properties C07 - C10.

use crate::desc::*;
use crate::glue::DynShape;
use crate::io_glue::{RecvRes, SendRes};
use crate::model::{self, Canonical, Image};
use crate::pipes::*;
use crate::tape::{gen_value, Fuel, Tape};

pub struct Msgs {
    /// the values the receiver must see (after the post-operations)
    pub values: Vec<Value>,
    /// the values that are emplaced into the send guard
    pub initial: Vec<Value>,
    /// shrinking operations applied through the SendGuard before send()
    pub post_ops: Vec<Vec<(Vec<u16>, crate::glue::Op)>>,
    /// messages that are written into the send guard as raw bytes (as_mut_bytes + assume_init) instead
    /// of being emplaced: the full image (the wire image in `images` is its first size() bytes)
    pub raw: Vec<Option<Vec<u8>>>,
    /// messages equal to the documented default that are initialised with the guard's default_in_place()
    pub use_default: Vec<bool>,
    pub images: Vec<Image>,
    /// absolute start of each message in the stream (+ total length at the end)
    pub starts: Vec<usize>,
    pub largest: usize,
    pub has_padding: bool,
    /// upper bound of the bytes the sender puts on the wire: a message that is shrunk through the send guard
    /// keeps the slots of its sealed FlexVec items, so it can be as long as the value that was emplaced
    pub upper_total: usize,
}

/// Containers of a value (path, kind, length), in pre-order.
fn containers(ty: &Ty, v: &Value, path: &mut Vec<u16>, out: &mut Vec<(Vec<u16>, u8, usize)>) {
    match (ty, v) {
        (Ty::FlatVec(t, _), Value::Vec(xs)) => {
            out.push((path.clone(), 0, xs.len()));
            for (i, x) in xs.iter().enumerate() {
                path.push(i as u16);
                containers(t, x, path, out);
                path.pop();
            }
        }
        (Ty::FlatString(_), Value::Str(s)) => out.push((path.clone(), 1, s.len())),
        (Ty::FlexVec(t, _), Value::Flex(xs)) => {
            out.push((path.clone(), 2, xs.len()));
            for (i, x) in xs.iter().enumerate() {
                path.push(i as u16);
                containers(t, x, path, out);
                path.pop();
            }
        }
        (Ty::Struct(s), Value::Struct(fs)) => {
            for (i, (t, x)) in s.fields.iter().zip(fs).enumerate() {
                path.push(i as u16);
                containers(t, x, path, out);
                path.pop();
            }
        }
        (Ty::Enum(e), Value::Enum(k, fs)) => {
            for (i, (t, x)) in e.variants[*k].fields.iter().zip(fs).enumerate() {
                path.push(i as u16);
                containers(t, x, path, out);
                path.pop();
            }
        }
        (Ty::Array(t, _), Value::Array(xs)) => {
            for (i, x) in xs.iter().enumerate() {
                path.push(i as u16);
                containers(t, x, path, out);
                path.pop();
            }
        }
        _ => {}
    }
}

/// 0..2 shrinking operations (pop / truncate / clear) on containers of `v`; returns the ops and the final value.
fn gen_shrink_ops(ty: &Ty, v: &Value, t: &mut Tape) -> (Vec<(Vec<u16>, crate::glue::Op)>, Value) {
    use crate::glue::Op;
    let mut cur = v.clone();
    let mut ops = vec![];
    let n = t.below(3);
    for _ in 0..n {
        let mut cs = vec![];
        containers(ty, &cur, &mut vec![], &mut cs);
        cs.retain(|c| c.2 > 0);
        if cs.is_empty() {
            break;
        }
        // prefer FlexVecs (their chain changes shape)
        let flexes: Vec<_> = cs.iter().filter(|c| c.1 == 2).cloned().collect();
        let pool = if !flexes.is_empty() && t.chance(3, 4) { flexes } else { cs };
        let (path, kind, len) = pool[t.below(pool.len())].clone();
        let node = super::history::resolve_mut(&mut cur, &path);
        let op = match (kind, t.below(3)) {
            (0, 0) => {
                node.items_mut().pop();
                Op::VPop
            }
            (0, 1) => {
                let k = t.below(len);
                node.items_mut().truncate(k);
                Op::VTruncate(k)
            }
            (0, _) => {
                node.items_mut().clear();
                Op::VClear
            }
            (1, _) => {
                *node = Value::Str(String::new());
                Op::SClear
            }
            (_, 0) => {
                node.items_mut().pop();
                Op::FPop
            }
            (_, 1) => {
                let k = t.below(len);
                node.items_mut().truncate(k);
                Op::FTruncate(k)
            }
            (_, _) => {
                node.items_mut().clear();
                Op::FClear
            }
        };
        ops.push((path, op));
    }
    (ops, cur)
}

/// Generate a sequence of 0..max messages of the shape (each at most `limit` bytes).
pub fn gen_msgs(ty: &Ty, t: &mut Tape, max: usize, limit: usize) -> Msgs {
    gen_msgs_ext(ty, t, max, limit, false)
}

/// With `shrink`, some messages are modified through the send guard (pop / truncate / clear) before
/// they are sent, which produces non-canonical images (0-terminated FlexVec chains, stale bytes).
pub fn gen_msgs_ext(ty: &Ty, t: &mut Tape, max: usize, limit: usize, shrink: bool) -> Msgs {
    let n = t.below(max + 1);
    let mut initial = vec![];
    let mut post_ops = vec![];
    let mut values = vec![];
    let mut images = vec![];
    let mut raw = vec![];
    let mut use_default = vec![];
    let mut starts = vec![0];
    let mut largest = model::min_size(ty);
    let mut has_padding = false;
    let mut upper_total = 0usize;
    for _ in 0..n {
        let mut fuel = Fuel { elems: 40, max_len: 10, overlong: false };
        if shrink && t.chance(1, 10) {
            // now and then a message of a few hundred bytes (a send that takes hundreds of pipe calls under byte-sized chunks)
            fuel = Fuel { elems: 330, max_len: 300, overlong: false };
        }
        let v = gen_value(ty, t, &mut fuel);
        let v = if shrink && ty.has_default() && t.chance(1, 8) { default_value(ty) } else { v };
        let size = model::size_of(ty, &v);
        if size > limit {
            continue;
        }
        if model::encode(ty, &v, size, 0, &mut Canonical).is_err() {
            continue;
        }
        if shrink && t.chance(1, 4) {
            // raw route: a reference-encoded image, in a third of the cases with non-canonical FlexVec
            // packing (0-terminated chains, slack strides), is copied into the guard's buffer
            let a = model::align(ty);
            let mut style = super::images::TapeStyle::from_tape(t);
            let slack_room = if style.canonical() { 0 } else { 4 * a * (1 + t.below(4)) };
            let fill = t.u8();
            let n = size + slack_room;
            if n <= limit {
                if let Ok(img) = model::encode(ty, &v, n, fill, &mut style) {
                    if let Ok(d) = model::decode(ty, &img.bytes, 0) {
                        if d.value == v {
                            let wire = if ty.is_sized() { model::size(ty) } else { model::round_up(d.extent, a).max(model::min_size(ty)) };
                            if wire % a != 0 || d.extent % a != 0 {
                                has_padding = true;
                            }
                            largest = largest.max(n);
                            upper_total += n;
                            starts.push(starts.last().unwrap() + wire);
                            initial.push(v.clone());
                            post_ops.push(vec![]);
                            values.push(v);
                            raw.push(Some(img.bytes.clone()));
                            use_default.push(false);
                            images.push(Image {
                                bytes: img.bytes[..wire].to_vec(),
                                mask: img.mask[..wire].to_vec(),
                                fields: img.fields.iter().filter(|f| f.off + f.size <= wire).cloned().collect(),
                                ..img
                            });
                            continue;
                        }
                    }
                }
            }
        }
        let (ops, fin) = if shrink && t.chance(1, 3) { gen_shrink_ops(ty, &v, t) } else { (vec![], v.clone()) };
        // provisional framing from the canonical size of the final value (exact when there are no post-ops)
        let fsize = if ops.is_empty() { size } else { model::size_of(ty, &fin) };
        let Ok(img) = model::encode(ty, &fin, fsize, 0, &mut Canonical) else { continue };
        if model::extent(ty, &fin) % model::align(ty) != 0 {
            has_padding = true;
        }
        largest = largest.max(size);
        upper_total += size.max(fsize);
        starts.push(starts.last().unwrap() + fsize);
        initial.push(v);
        post_ops.push(ops);
        values.push(fin);
        images.push(img);
        raw.push(None);
        use_default.push(ty.has_default() && *initial.last().unwrap() == default_value(ty));
    }
    Msgs {
        initial,
        post_ops,
        raw,
        use_default,
        values,
        images,
        starts,
        largest,
        has_padding,
        upper_total,
    }
}

impl Msgs {
    pub fn total(&self) -> usize {
        *self.starts.last().unwrap()
    }
    /// Does the byte stream `data` consist of exactly these messages (content-defined bytes only)?
    pub fn check_stream(&self, data: &[u8], upto: usize) -> Result<(), String> {
        let want = self.starts[upto];
        if data.len() != want {
            return Err(format!("the sink holds {} bytes but the {} sent messages occupy {}", data.len(), upto, want));
        }
        for i in 0..upto {
            let img = &self.images[i];
            let base = self.starts[i];
            for k in 0..img.bytes.len() {
                if img.mask[k] && data[base + k] != img.bytes[k] {
                    return Err(format!(
                        "byte {} of the stream (byte {} of message #{} = {}) is {:#04x}, encoding has {:#04x}",
                        base + k,
                        k,
                        i,
                        self.values[i].show(),
                        data[base + k],
                        img.bytes[k]
                    ));
                }
            }
        }
        Ok(())
    }
    /// Frame the sink contents with the reference decoder: message i must decode to `values[i]`; for
    /// messages without post-operations the content-defined bytes must also equal the canonical
    /// encoding. Returns the real message boundaries.
    pub fn frame_stream(&self, ty: &Ty, data: &[u8], upto: usize) -> Result<Vec<usize>, String> {
        let a = model::align(ty);
        let mut starts = vec![0usize];
        let mut cur = 0usize;
        for i in 0..upto {
            let d = model::decode(ty, &data[cur..], 0).map_err(|r| {
                format!("the sink contents at byte {} are not a well-formed message #{} ({:?} at [{}, {}))", cur, i, r.kind, r.lo, r.hi)
            })?;
            if d.value != self.values[i] {
                return Err(format!("message #{} in the sink decodes to {} but {} was sent", i, d.value.show(), self.values[i].show()));
            }
            let size = if ty.is_sized() { model::size(ty) } else { model::round_up(d.extent, a).max(model::min_size(ty)) };
            if self.post_ops[i].is_empty() {
                let img = &self.images[i];
                if size != img.bytes.len() {
                    return Err(format!("message #{} occupies {} bytes in the sink, its encoding has {}", i, size, img.bytes.len()));
                }
                for k in 0..size {
                    if img.mask[k] && data[cur + k] != img.bytes[k] {
                        return Err(format!("byte {} of message #{} = {} is {:#04x}, encoding has {:#04x}", k, i, self.values[i].show(), data[cur + k], img.bytes[k]));
                    }
                }
            }
            cur += size;
            if cur > data.len() {
                return Err(format!("message #{} extends to byte {} but the sink holds {}", i, cur, data.len()));
            }
            starts.push(cur);
        }
        if cur != data.len() {
            return Err(format!("the sink holds {} bytes but the {} sent messages occupy {}", data.len(), upto, cur));
        }
        Ok(starts)
    }
    /// Install the post-operations for the send drivers of this thread.
    pub fn install_post_ops(&self) {
        crate::io_glue::POST_OPS.with(|p| *p.borrow_mut() = self.post_ops.clone());
        crate::io_glue::RAW_IMAGES.with(|p| *p.borrow_mut() = self.raw.clone());
        crate::io_glue::USE_DEFAULT.with(|p| *p.borrow_mut() = self.use_default.clone());
    }
    pub fn clear_post_ops() {
        crate::io_glue::POST_OPS.with(|p| p.borrow_mut().clear());
        crate::io_glue::RAW_IMAGES.with(|p| p.borrow_mut().clear());
        crate::io_glue::USE_DEFAULT.with(|p| p.borrow_mut().clear());
    }
    /// A clean byte stream of the messages (padding zero).
    pub fn stream(&self) -> Vec<u8> {
        self.images.iter().flat_map(|i| i.bytes.iter().copied()).collect()
    }
    /// Positions at which a chunk boundary is interesting.
    pub fn interesting_cuts(&self, ty: &Ty) -> Vec<usize> {
        let a = model::align(ty);
        let mut c = vec![];
        for (i, v) in self.values.iter().enumerate() {
            let s = self.starts[i];
            let e = self.starts[i + 1];
            let ext = s + model::extent(ty, v);
            for p in [s + 1, s + 2, s + a, ext.saturating_sub(1), ext, ext + 1, e.saturating_sub(1), e, e + 1, s + model::min_size(ty)] {
                if p > 0 && p < self.total() {
                    c.push(p);
                }
            }
            for f in &self.images[i].fields {
                let p = s + f.off + f.size;
                if p < self.total() {
                    c.push(p);
                }
            }
        }
        c.sort();
        c.dedup();
        c
    }
}

/// Split `total` bytes into chunk sizes according to the tape.
pub fn gen_chunks(total: usize, cuts: &[usize], t: &mut Tape) -> Vec<usize> {
    if total == 0 {
        return vec![];
    }
    let mode = t.below(8);
    let mut pos: Vec<usize> = match mode {
        0 => vec![],                                 // whole stream
        1 => (1..total).collect(),                   // byte by byte
        2 => cuts.to_vec(),                          // all interesting cuts
        _ => {
            let mut p: Vec<usize> = cuts.iter().copied().filter(|_| t.bool()).collect();
            let extra = t.below(6);
            for _ in 0..extra {
                p.push(1 + t.below(total.min(65535) - 0).min(total - 1).max(0));
            }
            p
        }
    };
    pos.retain(|p| *p > 0 && *p < total);
    pos.sort();
    pos.dedup();
    let mut out = vec![];
    let mut last = 0;
    for p in pos {
        out.push(p - last);
        last = p;
    }
    out.push(total - last);
    out
}

pub fn chunk_boundaries(chunks: &[usize]) -> Vec<usize> {
    let mut v = vec![];
    let mut p = 0;
    for c in chunks {
        p += c;
        v.push(p);
    }
    v
}

pub fn message_shapes(reg: &crate::run::Registry) -> Vec<usize> {
    (0..reg.shapes.len()).filter(|i| reg.shapes[*i].is_message_shape()).collect()
}

/// Compare the received events with the sent values. `expect_closed`: the stream ended cleanly.
pub fn check_received(name: &str, sent: &[Value], recvs: &[RecvRes], expect_closed: bool) -> Result<(), (String, String)> {
    let mut i = 0;
    for r in recvs {
        match r {
            RecvRes::Msg { value, anomalies, .. } => {
                if !anomalies.is_empty() {
                    return Err(("anomaly".into(), format!("{}: received message #{}: {}", name, i, anomalies.join("; "))));
                }
                if i >= sent.len() {
                    return Err(("extra-message".into(), format!("{}: receiver yields a message that was never sent: {}", name, value.show())));
                }
                if value != &sent[i] {
                    return Err((
                        "wrong-message".into(),
                        format!("{}: message #{} was sent as {} but received as {}", name, i, sent[i].show(), value.show()),
                    ));
                }
                i += 1;
            }
            RecvRes::Retained => {}
            RecvRes::Closed => {
                if i != sent.len() {
                    return Err(("lost-message".into(), format!("{}: receiver reports Closed after {} of {} messages", name, i, sent.len())));
                }
                if !expect_closed {
                    return Ok(());
                }
                return Ok(());
            }
            RecvRes::Parse(e) => return Err(("parse-error".into(), format!("{}: receiver reports a parse error {}@{} after {} of {} messages", name, e.kind, e.pos, i, sent.len()))),
            RecvRes::Read(k) => return Err(("read-error".into(), format!("{}: receiver reports a read error {:?} after {} of {} messages", name, k, i, sent.len()))),
            RecvRes::Panic(m) => return Err(("panic".into(), format!("{}: recv() panicked after {} of {} messages: {}", name, i, sent.len(), m))),
            RecvRes::DropPanic(m) => return Err(("panic".into(), format!("{}: dropping the guard of message #{} panicked: {}", name, i, m))),
        }
    }
    Err(("no-closed".into(), format!("{}: receiver never reported Closed ({} of {} messages seen)", name, i, sent.len())))
}

pub fn all_sent(name: &str, sends: &[SendRes], n: usize) -> Result<(), (String, String)> {
    for (i, s) in sends.iter().enumerate() {
        match s {
            SendRes::Sent => {}
            SendRes::Panic(m) => return Err(("panic".into(), format!("{}: sending message #{} panicked: {}", name, i, m))),
            other => return Err(("send-failed".into(), format!("{}: sending message #{} failed: {:?}", name, i, other))),
        }
    }
    if sends.len() != n {
        return Err(("send-failed".into(), format!("{}: only {} of {} sends completed", name, sends.len(), n)));
    }
    Ok(())
}

pub fn dyn_ty(s: &dyn DynShape) -> &Ty {
    s.ty()
}
pub fn wouts(chunks: &[usize]) -> Vec<WOut> {
    chunks.iter().map(|c| WOut::Accept(*c)).collect()
}
pub fn routs(chunks: &[usize]) -> Vec<ROut> {
    chunks.iter().map(|c| ROut::Deliver(*c)).collect()
}

/// A message that does not fit the send buffer: `new_in_place` on the send guard must refuse it
/// (nothing reaches the sink) and the sender stays usable. Sends [small, big, small] through a sender
/// whose buffer holds `small` but not `big`. Returns Ok(false) if the shape has no such pair.
pub fn oversize_probe(sh: &dyn DynShape, msgs: &Msgs, asynchronous: bool) -> Result<bool, (String, String)> {
    use crate::run::lib;
    let ty = sh.ty();
    let name = ty.short();
    let a = model::align(ty);
    let ms = model::min_size(ty);
    // the guard's default_in_place() in a buffer below MIN_SIZE
    let cap0 = model::round_down(ms.saturating_sub(1), a);
    if ty.has_default() && cap0 > 0 {
        let seq = vec![default_value(ty)];
        let mut sink = ScriptSink::new(vec![], WOut::Accept(usize::MAX), 64);
        crate::io_glue::IO_CAPACITY.with(|c| c.set(Some(cap0)));
        crate::io_glue::USE_DEFAULT.with(|p| *p.borrow_mut() = vec![true]);
        let rep = if asynchronous {
            lib(|| sh.io_async_send(&seq, &[], cap0, &mut sink, 4096, true))
        } else {
            lib(|| sh.io_send_blocking(&seq, &[], cap0, &mut sink, true))
        };
        crate::io_glue::IO_CAPACITY.with(|c| c.set(None));
        crate::io_glue::USE_DEFAULT.with(|p| p.borrow_mut().clear());
        let what = format!("[{} sender with a {}-byte buffer (MIN_SIZE {}), default_in_place() on the send guard]", if asynchronous { "async" } else { "blocking" }, cap0, ms);
        let rep = rep.map_err(|p| ("panic".to_string(), format!("{}: sender panicked: {} {}", name, p, what)))?;
        if !(rep.results.len() == 1 && matches!(&rep.results[0], SendRes::Emplace(e) if e.kind == "InsufficientSize")) || !sink.data.is_empty() {
            return Err(("oversize-message".into(), format!("{}: expected [Emplace(InsufficientSize)] and an empty sink but got {:?}, {} bytes in the sink {}", name, rep.results, sink.data.len(), what)));
        }
    }
    let small = super::common::minimal_values(ty).remove(0);
    let small_size = model::size_of(ty, &small);
    let Some(big) = msgs.values.iter().max_by_key(|v| model::size_of(ty, v)) else { return Ok(false) };
    let big_size = model::size_of(ty, big);
    if big_size < a || model::round_down(big_size - 1, a) < small_size.max(ms) {
        return Ok(false);
    }
    let cap = model::round_down(big_size - 1, a);
    let Ok(small_img) = model::encode(ty, &small, small_size, 0, &mut Canonical) else { return Ok(false) };
    let seq = vec![small.clone(), big.clone(), small.clone()];
    let mut sink = ScriptSink::new(vec![], WOut::Accept(usize::MAX), 64 + 4 * small_size);
    crate::io_glue::IO_CAPACITY.with(|c| c.set(Some(cap)));
    let rep = if asynchronous {
        lib(|| sh.io_async_send(&seq, &[], cap, &mut sink, 4096, true))
    } else {
        lib(|| sh.io_send_blocking(&seq, &[], cap, &mut sink, true))
    };
    crate::io_glue::IO_CAPACITY.with(|c| c.set(None));
    let what = format!("[{} sender with a {}-byte buffer, messages small = {} ({} bytes), big = {} ({} bytes), small]", if asynchronous { "async" } else { "blocking" }, cap, small.show(), small_size, big.show(), big_size);
    let rep = rep.map_err(|p| ("panic".to_string(), format!("{}: sender panicked: {} {}", name, p, what)))?;
    let ok = rep.results.len() == 3
        && rep.results[0] == SendRes::Sent
        && matches!(&rep.results[1], SendRes::Emplace(e) if e.kind == "InsufficientSize")
        && rep.results[2] == SendRes::Sent;
    if !ok {
        return Err(("oversize-message".into(), format!("{}: expected [Sent, Emplace(InsufficientSize), Sent] but got {:?} {}", name, rep.results, what)));
    }
    if sink.data.len() != 2 * small_size {
        return Err(("oversize-message".into(), format!("{}: the sink holds {} bytes, the two messages that fit occupy {} {}", name, sink.data.len(), 2 * small_size, what)));
    }
    for rep_i in 0..2 {
        for k in 0..small_size {
            if small_img.mask[k] && sink.data[rep_i * small_size + k] != small_img.bytes[k] {
                return Err(("oversize-message".into(), format!("{}: byte {} of the sink is not the encoding of the small message {}", name, rep_i * small_size + k, what)));
            }
        }
    }
    Ok(true)
}

/// Deterministic bulk cases: (a) fifty small messages that all sit in the receive buffer after one read, so that
/// fifty recv() calls in a row are served without touching the pipe; (b) one message of 100 000 bytes through
/// pipes that take everything at once, 65 536 bytes per call, or 4 096 bytes per call.
pub fn bulk_probe(reg: &crate::run::Registry, asynchronous: bool, st: &mut crate::run::Stats) -> crate::run::CaseResult {
    use crate::run::lib;
    let variant = if asynchronous { "async" } else { "blocking" };
    for name in ["ATestMsg", "u32", "FlatVec<u8, u32>", "AU32VecU8"] {
        let Some(idx) = reg.by_name(name) else { continue };
        let sh = reg.shapes[idx].as_ref();
        let ty = sh.ty();
        let mins = super::common::minimal_values(ty);
        let values: Vec<Value> = (0..50).map(|i| mins[i % mins.len()].clone()).collect();
        let mut stream = vec![];
        for v in &values {
            let n = model::size_of(ty, v);
            let img = model::encode(ty, v, n, 0, &mut Canonical).map_err(|_| crate::run::Violation { key: "harness-bulk".into(), msg: "harness: cannot encode a minimal value".into() })?;
            stream.extend_from_slice(&img.bytes);
        }
        let total = stream.len();
        let mut source = ScriptSource::new(stream.clone(), vec![], ROut::Deliver(usize::MAX), 4 * total + 64);
        st.eval(1);
        let rep = if asynchronous {
            lib(|| sh.io_async_recv(&mut source, total, values.len() + 3, 0, 64 * values.len() + 256))
        } else {
            lib(|| sh.io_recv_blocking(&mut source, total, values.len() + 3, 0))
        };
        let what = format!("[{} receiver, 50 small messages ({} bytes) delivered by a single read]", variant, total);
        let rep = match rep {
            Ok(r) => r,
            Err(p) => crate::vfail!("panic", "{}: receiver panicked: {} {}", name, p, what),
        };
        if rep.stalled {
            crate::vfail!("stalled", "{}: a recv future returned Pending without arranging a wake-up although every byte had been delivered {}", name, what);
        }
        if let Err((k, m)) = check_received(name, &values, &rep.events, true) {
            crate::vfail!(k, "{} {}", m, what);
        }
        st.nontrivial((name, variant, "bulk-small"), || serde_json::json!({"shape": name, "variant": variant, "messages": 50, "bytes": total}));
    }
    if let Some(idx) = reg.by_name("FlatVec<u8, u32>") {
        let sh = reg.shapes[idx].as_ref();
        let ty = sh.ty();
        let big = Value::Vec((0..100_000u32).map(|i| Value::Scalar((i % 251) as u128)).collect());
        let small = Value::Vec(vec![Value::Scalar(7), Value::Scalar(8)]);
        let values = vec![small.clone(), big, small];
        let mut stream = vec![];
        for v in &values {
            let n = model::size_of(ty, v);
            let img = model::encode(ty, v, n, 0, &mut Canonical).map_err(|_| crate::run::Violation { key: "harness-bulk".into(), msg: "harness: cannot encode the big message".into() })?;
            stream.extend_from_slice(&img.bytes);
        }
        let total = stream.len();
        let max_len = 100_004;
        for chunk in [usize::MAX, 65_536, 4_096] {
            let what = format!("[{} IO, messages of 8, 100004 and 8 bytes, pipe takes / gives {} bytes per call]", variant, chunk as isize);
            let mut sink = ScriptSink::new(vec![], WOut::Accept(chunk), 4 * (total / chunk.min(total) + 8) + 64);
            st.eval(1);
            let sends = if asynchronous {
                lib(|| sh.io_async_send(&values, &[], max_len, &mut sink, 8 * (total / chunk.min(total) + 8) + 256, false))
            } else {
                lib(|| sh.io_send_blocking(&values, &[], max_len, &mut sink, false))
            };
            let sends = match sends {
                Ok(x) => x,
                Err(p) => crate::vfail!("panic", "FlatVec<u8, u32>: sender panicked: {} {}", p, what),
            };
            if sends.stalled {
                crate::vfail!("stalled", "FlatVec<u8, u32>: a send future stopped making progress {}", what);
            }
            if let Err((k, m)) = all_sent("FlatVec<u8, u32>", &sends.results, values.len()) {
                crate::vfail!(k, "{} {}", m, what);
            }
            if sink.data.len() != total {
                crate::vfail!("stream", "FlatVec<u8, u32>: the sink holds {} bytes, the three messages occupy {} {}", sink.data.len(), total, what);
            }
            // (padding bytes of the 8-byte messages are the only undefined ones: compare through the receiver)
            let mut source = ScriptSource::new(sink.data.clone(), vec![], ROut::Deliver(chunk), 4 * (total / chunk.min(total) + 8) + 64);
            st.eval(1);
            let rep = if asynchronous {
                lib(|| sh.io_async_recv(&mut source, max_len, values.len() + 3, 0, 8 * (total / chunk.min(total) + 8) + 256))
            } else {
                lib(|| sh.io_recv_blocking(&mut source, max_len, values.len() + 3, 0))
            };
            let rep = match rep {
                Ok(r) => r,
                Err(p) => crate::vfail!("panic", "FlatVec<u8, u32>: receiver panicked: {} {}", p, what),
            };
            if rep.stalled {
                crate::vfail!("stalled", "FlatVec<u8, u32>: a recv future stopped making progress {}", what);
            }
            if let Err((k, m)) = check_received("FlatVec<u8, u32>", &values, &rep.events, true) {
                crate::vfail!(k, "{} {}", m.chars().take(300).collect::<String>(), what);
            }
            st.nontrivial(("bulk-big", variant, chunk), || serde_json::json!({"shape": "FlatVec<u8, u32>", "variant": variant, "message_bytes": 100_004, "chunk": chunk as isize}));
        }
    }
    Ok(())
}
