//! A "choice tape": every random decision of a case is read from a byte string
//! that proptest (or libFuzzer) generated. Zero bytes always select the
//! simplest alternative, so shrinking the tape shrinks the case.

use crate::desc::*;
use crate::model;

pub struct Tape<'a> {
    b: &'a [u8],
    pos: usize,
}

impl<'a> Tape<'a> {
    pub fn new(b: &'a [u8]) -> Self {
        Tape { b, pos: 0 }
    }
    pub fn u8(&mut self) -> u8 {
        let x = self.b.get(self.pos).copied().unwrap_or(0);
        self.pos += 1;
        x
    }
    pub fn u16(&mut self) -> u16 {
        (self.u8() as u16) | ((self.u8() as u16) << 8)
    }
    pub fn u128(&mut self, bytes: usize) -> u128 {
        let mut x = 0u128;
        for i in 0..bytes {
            x |= (self.u8() as u128) << (8 * i);
        }
        x
    }
    /// Monotone map of one (n <= 256) or two bytes onto 0..n.
    pub fn below(&mut self, n: usize) -> usize {
        if n <= 1 {
            return 0;
        }
        if n <= 256 {
            (self.u8() as usize * n) >> 8
        } else {
            ((self.u16() as usize) * n) >> 16
        }
    }
    pub fn bool(&mut self) -> bool {
        self.u8() & 1 == 1
    }
    pub fn chance(&mut self, num: usize, den: usize) -> bool {
        // high byte values trigger the rare alternative, so 0 = common case
        self.below(den) >= den - num
    }
    pub fn exhausted(&self) -> bool {
        self.pos >= self.b.len()
    }
    pub fn take(&mut self, n: usize) -> Vec<u8> {
        (0..n).map(|_| self.u8()).collect()
    }
    /// Emplacer route bytes (0xF7 is reserved for the known-finding probe). One byte in sixteen
    /// selects the loose-size_hint iterator route (0xF5), one in thirty-two the iterator whose exact
    /// size_hint over-reports (0xF3).
    pub fn route(&mut self, n: usize) -> Vec<u8> {
        (0..n)
            .map(|_| self.u8())
            .map(|b| match b {
                0xF7 => 0xF6,
                b if b % 16 == 5 => 0xF5,
                b if b % 32 == 3 => 0xF3,
                b => b,
            })
            .collect()
    }
    /// Routes for assign_in_place: only emplacers that know their length up front (a FromIterator over
    /// an iterator with a loose size_hint cannot be transactional - known finding C18|unknown-length-iterator).
    pub fn route_exact(&mut self, n: usize) -> Vec<u8> {
        (0..n).map(|_| self.u8()).map(|b| if b == 0xF7 || b == 0xF5 || b == 0xF3 { 0xF6 } else { b }).collect()
    }
    pub fn consumed(&self) -> usize {
        self.pos
    }
}

/// Limits for value generation.
#[derive(Clone, Copy)]
pub struct Fuel {
    /// remaining number of container elements that may still be generated
    pub elems: usize,
    /// maximal length of a single container
    pub max_len: usize,
    /// allow container lengths above the length type's maximum (only meaningful for values that are
    /// fed to an emplacer which is expected to refuse them)
    pub overlong: bool,
}

impl Fuel {
    pub fn small() -> Self {
        Fuel { elems: 48, max_len: 12, overlong: false }
    }
    pub fn big() -> Self {
        Fuel { elems: 700, max_len: 300, overlong: false }
    }
}

pub fn gen_scalar(ty: &Ty, t: &mut Tape) -> Value {
    let size = model::scalar_size(ty);
    let bits = 8 * size as u32;
    let mask: u128 = if bits == 128 { u128::MAX } else { (1u128 << bits) - 1 };
    let is_float = matches!(ty, Ty::PFloat { .. } | Ty::Prim(Prim::F32) | Ty::Prim(Prim::F64));
    let k = t.below(16);
    let x: u128 = if is_float {
        let (one, inf, qnan, sub): (u128, u128, u128, u128) = if size == 4 {
            (0x3f80_0000, 0x7f80_0000, 0x7fc0_0000, 1)
        } else {
            (0x3ff0_0000_0000_0000, 0x7ff0_0000_0000_0000, 0x7ff8_0000_0000_0000, 1)
        };
        let sign = 1u128 << (bits - 1);
        match k {
            0 => 0,
            1 => one,
            2 => sign,         // -0.0
            3 => inf,
            4 => inf | sign,
            5 => qnan,
            6 => qnan | sign | (t.u128(2) & 0xffff), // NaN with payload
            7 => inf | 1 | (t.u128(2) & 0xffff),     // signalling NaN payloads
            8 => sub,
            9 => one | sign,
            _ => t.u128(size),
        }
    } else {
        match k {
            0 => 0,
            1 => 1,
            2 => mask,               // MAX (unsigned) / -1
            3 => mask >> 1,          // MAX (signed)
            4 => (mask >> 1) + 1,    // MIN (signed)
            5 => mask - 1,
            6 => 0x7f,
            7 => 0x80,
            8 => 0xff,
            9 => 0x100 & mask,
            10 => 2,
            _ => t.u128(size),
        }
    };
    Value::Scalar(x & mask)
}

const CHARS: [char; 12] = ['a', 'Z', '0', ' ', 'é', 'ß', '€', '한', '😀', '\u{10FFFF}', '\u{7f}', '\u{80}'];

pub fn gen_char(t: &mut Tape) -> char {
    let k = t.below(16);
    if k < CHARS.len() {
        CHARS[k]
    } else {
        (b'a' + t.below(26) as u8) as char
    }
}

fn gen_len(t: &mut Tape, fuel: &mut Fuel) -> usize {
    let max = fuel.max_len.min(fuel.elems);
    let k = t.below(8);
    // with a big budget, aim at the neighbourhood of u8::MAX (length-type and offset-type limits)
    if max >= 257 && k >= 5 {
        let n = 247 + t.below(11);
        fuel.elems -= n;
        return n;
    }
    let n = match k {
        0 => 0,
        1 => 1,
        2 => 2,
        3 => 3,
        4 | 5 => t.below(max.min(8) + 1),
        _ => t.below(max + 1),
    };
    let n = n.min(max);
    fuel.elems -= n;
    n
}

/// Generate a value of `ty` from the tape.
pub fn gen_value(ty: &Ty, t: &mut Tape, fuel: &mut Fuel) -> Value {
    match ty {
        Ty::Unit => Value::Unit,
        Ty::Prim(_) | Ty::PInt { .. } | Ty::PFloat { .. } => gen_scalar(ty, t),
        Ty::Bool => Value::Bool(t.bool()),
        Ty::Array(e, n) => Value::Array((0..*n).map(|_| gen_value(e, t, fuel)).collect()),
        Ty::Struct(s) => Value::Struct(s.fields.iter().map(|f| gen_value(f, t, fuel)).collect()),
        Ty::Enum(e) => {
            let i = t.below(e.variants.len());
            Value::Enum(i, e.variants[i].fields.iter().map(|f| gen_value(f, t, fuel)).collect())
        }
        Ty::FlatVec(e, l) => {
            let mut n = gen_len(t, fuel);
            if !fuel.overlong {
                n = n.min(l.max().min(1 << 20) as usize);
            }
            Value::Vec((0..n).map(|_| gen_value(e, t, fuel)).collect())
        }
        Ty::FlatString(l) => {
            let n = gen_len(t, fuel);
            let mut s = String::new();
            for _ in 0..n {
                let c = gen_char(t);
                if (s.len() + c.len_utf8()) as u128 > l.max() && !fuel.overlong {
                    break;
                }
                s.push(c);
            }
            Value::Str(s)
        }
        Ty::FlexVec(e, _) => {
            let max = fuel.elems.min(5);
            let n = match t.below(6) {
                0 => 0,
                1 => 1,
                2 => 2,
                k => (k - 1).min(max),
            }
            .min(max);
            fuel.elems -= n.min(fuel.elems);
            Value::Flex((0..n).map(|_| gen_value(e, t, fuel)).collect())
        }
    }
}

/// A byte from the skewed alphabet used for raw images.
pub fn skew_byte(t: &mut Tape, len: usize) -> u8 {
    match t.below(16) {
        0 | 1 | 2 => 0,
        3 => 1,
        4 => 2,
        5 => 3,
        6 => t.below(16) as u8,
        7 => len.wrapping_sub(1) as u8,
        8 => len as u8,
        9 => len.wrapping_add(1) as u8,
        10 => 0x7f,
        11 => 0x80,
        12 => 0xfe,
        13 => 0xff,
        _ => t.u8(),
    }
}
