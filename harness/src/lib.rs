pub mod desc;
pub mod gen;
pub mod glue;
pub mod model;
pub mod shapes;
