//! Type descriptions and dynamic values: the vocabulary shared by the shape
//! generator (build.rs), the reference model and the glue.
//!
//! This file is `include!`d / `#[path]`-included by build.rs, so it must not
//! depend on anything but `std`.

#[derive(Clone, Copy, Debug, PartialEq, Eq, Hash)]
pub enum Prim {
    U8,
    U16,
    U32,
    U64,
    U128,
    Usize,
    I8,
    I16,
    I32,
    I64,
    I128,
    Isize,
    F32,
    F64,
}

impl Prim {
    pub const ALL: [Prim; 14] = [
        Prim::U8,
        Prim::U16,
        Prim::U32,
        Prim::U64,
        Prim::U128,
        Prim::Usize,
        Prim::I8,
        Prim::I16,
        Prim::I32,
        Prim::I64,
        Prim::I128,
        Prim::Isize,
        Prim::F32,
        Prim::F64,
    ];
    pub fn size(self) -> usize {
        match self {
            Prim::U8 | Prim::I8 => 1,
            Prim::U16 | Prim::I16 => 2,
            Prim::U32 | Prim::I32 | Prim::F32 => 4,
            Prim::U64 | Prim::I64 | Prim::F64 | Prim::Usize | Prim::Isize => 8,
            Prim::U128 | Prim::I128 => 16,
        }
    }
    /// x86-64 SysV ABI as implemented by rustc >= 1.77 (128-bit ints are 16-aligned).
    pub fn align(self) -> usize {
        self.size()
    }
    pub fn rust(self) -> &'static str {
        match self {
            Prim::U8 => "u8",
            Prim::U16 => "u16",
            Prim::U32 => "u32",
            Prim::U64 => "u64",
            Prim::U128 => "u128",
            Prim::Usize => "usize",
            Prim::I8 => "i8",
            Prim::I16 => "i16",
            Prim::I32 => "i32",
            Prim::I64 => "i64",
            Prim::I128 => "i128",
            Prim::Isize => "isize",
            Prim::F32 => "f32",
            Prim::F64 => "f64",
        }
    }
    pub fn is_float(self) -> bool {
        matches!(self, Prim::F32 | Prim::F64)
    }
}

/// Length / offset types usable as `L` of the containers.
#[derive(Clone, Copy, Debug, PartialEq, Eq, Hash)]
pub enum LenTy {
    U8,
    U16,
    U32,
    U64,
    Usize,
    LeU16,
    LeU32,
    LeU64,
    BeU16,
    BeU32,
    BeU64,
}

impl LenTy {
    pub const ALL: [LenTy; 11] = [
        LenTy::U8,
        LenTy::U16,
        LenTy::U32,
        LenTy::U64,
        LenTy::Usize,
        LenTy::LeU16,
        LenTy::LeU32,
        LenTy::LeU64,
        LenTy::BeU16,
        LenTy::BeU32,
        LenTy::BeU64,
    ];
    pub const PORTABLE: [LenTy; 7] = [
        LenTy::U8,
        LenTy::LeU16,
        LenTy::LeU32,
        LenTy::LeU64,
        LenTy::BeU16,
        LenTy::BeU32,
        LenTy::BeU64,
    ];
    pub fn size(self) -> usize {
        match self {
            LenTy::U8 => 1,
            LenTy::U16 | LenTy::LeU16 | LenTy::BeU16 => 2,
            LenTy::U32 | LenTy::LeU32 | LenTy::BeU32 => 4,
            LenTy::U64 | LenTy::Usize | LenTy::LeU64 | LenTy::BeU64 => 8,
        }
    }
    pub fn align(self) -> usize {
        match self {
            LenTy::U8 | LenTy::LeU16 | LenTy::LeU32 | LenTy::LeU64 | LenTy::BeU16 | LenTy::BeU32 | LenTy::BeU64 => 1,
            _ => self.size(),
        }
    }
    pub fn is_portable(self) -> bool {
        self.align() == 1
    }
    pub fn big_endian(self) -> bool {
        matches!(self, LenTy::BeU16 | LenTy::BeU32 | LenTy::BeU64)
    }
    /// Maximum representable value, as u128 (fits u64).
    pub fn max(self) -> u128 {
        match self.size() {
            1 => u8::MAX as u128,
            2 => u16::MAX as u128,
            4 => u32::MAX as u128,
            _ => u64::MAX as u128,
        }
    }
    pub fn rust(self) -> &'static str {
        match self {
            LenTy::U8 => "u8",
            LenTy::U16 => "u16",
            LenTy::U32 => "u32",
            LenTy::U64 => "u64",
            LenTy::Usize => "usize",
            LenTy::LeU16 => "::flatty::portable::le::U16",
            LenTy::LeU32 => "::flatty::portable::le::U32",
            LenTy::LeU64 => "::flatty::portable::le::U64",
            LenTy::BeU16 => "::flatty::portable::be::U16",
            LenTy::BeU32 => "::flatty::portable::be::U32",
            LenTy::BeU64 => "::flatty::portable::be::U64",
        }
    }
    /// The same type seen as an element type.
    pub fn as_ty(self) -> Ty {
        match self {
            LenTy::U8 => Ty::Prim(Prim::U8),
            LenTy::U16 => Ty::Prim(Prim::U16),
            LenTy::U32 => Ty::Prim(Prim::U32),
            LenTy::U64 => Ty::Prim(Prim::U64),
            LenTy::Usize => Ty::Prim(Prim::Usize),
            l => Ty::PInt {
                size: l.size(),
                be: l.big_endian(),
                signed: false,
            },
        }
    }
}

#[derive(Clone, Copy, Debug, PartialEq, Eq, Hash)]
pub enum TagTy {
    U8,
    U16,
    U32,
}
impl TagTy {
    pub fn size(self) -> usize {
        match self {
            TagTy::U8 => 1,
            TagTy::U16 => 2,
            TagTy::U32 => 4,
        }
    }
    pub fn rust(self) -> &'static str {
        match self {
            TagTy::U8 => "u8",
            TagTy::U16 => "u16",
            TagTy::U32 => "u32",
        }
    }
}

#[derive(Clone, Copy, Debug, PartialEq, Eq, Hash)]
pub enum VarKind {
    Unit,
    Tuple,
    Named,
}

#[derive(Clone, Debug, PartialEq, Eq, Hash)]
pub struct StructDef {
    /// for an instantiation of a hand-written generic definition: the generic's base name
    /// (the definition itself is emitted once from `gen::GENERIC_SRC`)
    pub generic_of: Option<String>,
    pub name: String,
    pub tuple: bool,
    pub fields: Vec<Ty>,
    pub sized: bool,
    pub portable: bool,
    pub default: bool,
}

#[derive(Clone, Debug, PartialEq, Eq, Hash)]
pub struct Variant {
    pub kind: VarKind,
    pub fields: Vec<Ty>,
}

#[derive(Clone, Debug, PartialEq, Eq, Hash)]
pub struct EnumDef {
    pub generic_of: Option<String>,
    pub name: String,
    pub tag: TagTy,
    pub variants: Vec<Variant>,
    pub sized: bool,
    pub portable: bool,
    /// index of the `#[default]` variant when `default = true`
    pub default: Option<usize>,
}

impl EnumDef {
    pub fn c_like(&self) -> bool {
        self.variants.iter().all(|v| v.kind == VarKind::Unit)
    }
}

#[derive(Clone, Debug, PartialEq, Eq, Hash)]
pub enum Ty {
    Unit,
    Prim(Prim),
    Bool,
    PInt { size: usize, be: bool, signed: bool },
    PFloat { size: usize, be: bool },
    Array(Box<Ty>, usize),
    Struct(Box<StructDef>),
    Enum(Box<EnumDef>),
    FlatVec(Box<Ty>, LenTy),
    FlatString(LenTy),
    FlexVec(Box<Ty>, LenTy),
}

impl Ty {
    pub fn is_sized(&self) -> bool {
        match self {
            Ty::Struct(s) => s.sized,
            Ty::Enum(e) => e.sized,
            Ty::FlatVec(..) | Ty::FlatString(..) | Ty::FlexVec(..) => false,
            _ => true,
        }
    }
    /// `flatty::Portable` is implemented.
    pub fn is_portable(&self) -> bool {
        match self {
            Ty::Unit | Ty::Bool | Ty::PInt { .. } | Ty::PFloat { .. } => true,
            Ty::Prim(p) => matches!(p, Prim::U8 | Prim::I8),
            Ty::Array(t, _) => t.is_portable(),
            Ty::Struct(s) => s.portable,
            Ty::Enum(e) => e.portable,
            Ty::FlatVec(t, l) | Ty::FlexVec(t, l) => t.is_portable() && l.is_portable(),
            Ty::FlatString(l) => l.is_portable(),
        }
    }
    /// `FlatDefault` is implemented (so `default_in_place` exists).
    pub fn has_default(&self) -> bool {
        match self {
            // arrays are `FlatDefault` in the library (for N <= 32), but the glue cannot name that bound
            // for a generic N, so no default route exists for them as top-level shapes / FlexVec items
            Ty::Array(..) => false,
            Ty::Struct(s) => s.default,
            Ty::Enum(e) => e.default.is_some(),
            _ => true,
        }
    }
    /// Rust spelling of the type (generated items live in `crate::shapes`).
    pub fn rust(&self) -> String {
        match self {
            Ty::Unit => "()".into(),
            Ty::Prim(p) => p.rust().into(),
            Ty::Bool => "::flatty::portable::Bool".into(),
            Ty::PInt { size, be, signed } => format!(
                "::flatty::portable::{}::{}{}",
                if *be { "be" } else { "le" },
                if *signed { "I" } else { "U" },
                size * 8
            ),
            Ty::PFloat { size, be } => format!("::flatty::portable::{}::F{}", if *be { "be" } else { "le" }, size * 8),
            Ty::Array(t, n) => format!("[{}; {}]", t.rust(), n),
            Ty::Struct(s) => s.name.clone(),
            Ty::Enum(e) => e.name.clone(),
            Ty::FlatVec(t, l) => format!("::flatty::FlatVec<{}, {}>", t.rust(), l.rust()),
            Ty::FlatString(l) => format!("::flatty::FlatString<{}>", l.rust()),
            Ty::FlexVec(t, l) => format!("::flatty::FlexVec<{}, {}>", t.rust(), l.rust()),
        }
    }
    /// Short human-readable name (used in evidence, replay files, labels).
    pub fn short(&self) -> String {
        self.rust().replace("::flatty::portable::", "").replace("::flatty::", "")
    }
    /// Nesting depth (scalars 0).
    pub fn depth(&self) -> usize {
        match self {
            Ty::Array(t, _) | Ty::FlatVec(t, _) | Ty::FlexVec(t, _) => 1 + t.depth(),
            Ty::Struct(s) => 1 + s.fields.iter().map(|f| f.depth()).max().unwrap_or(0),
            Ty::Enum(e) => 1 + e.variants.iter().flat_map(|v| v.fields.iter()).map(|f| f.depth()).max().unwrap_or(0),
            Ty::FlatString(_) => 1,
            _ => 0,
        }
    }
    /// Size metric used to report the smallest failing shape.
    pub fn weight(&self) -> usize {
        match self {
            Ty::Array(t, _) | Ty::FlatVec(t, _) | Ty::FlexVec(t, _) => 1 + t.weight(),
            Ty::Struct(s) => 1 + s.fields.iter().map(|f| f.weight()).sum::<usize>(),
            Ty::Enum(e) => 1 + e.variants.iter().flat_map(|v| v.fields.iter()).map(|f| f.weight() + 1).sum::<usize>(),
            _ => 1,
        }
    }
    pub fn any<F: Fn(&Ty) -> bool + Copy>(&self, f: F) -> bool {
        if f(self) {
            return true;
        }
        match self {
            Ty::Array(t, _) | Ty::FlatVec(t, _) | Ty::FlexVec(t, _) => t.any(f),
            Ty::Struct(s) => s.fields.iter().any(|t| t.any(f)),
            Ty::Enum(e) => e.variants.iter().flat_map(|v| v.fields.iter()).any(|t| t.any(f)),
            _ => false,
        }
    }
}

/// Dynamic value of some `Ty`. Scalars are kept as raw bit patterns of the
/// type's width (so floats compare bitwise).
#[derive(Clone, Debug, PartialEq, Eq, Hash)]
pub enum Value {
    Unit,
    Scalar(u128),
    Bool(bool),
    Array(Vec<Value>),
    Struct(Vec<Value>),
    Enum(usize, Vec<Value>),
    Vec(Vec<Value>),
    Str(String),
    Flex(Vec<Value>),
}

impl Value {
    pub fn scalar(&self) -> u128 {
        match self {
            Value::Scalar(x) => *x,
            Value::Bool(b) => *b as u128,
            _ => panic!("harness: not a scalar: {:?}", self),
        }
    }
    pub fn items(&self) -> &[Value] {
        match self {
            Value::Array(v) | Value::Struct(v) | Value::Vec(v) | Value::Flex(v) => v,
            Value::Enum(_, v) => v,
            _ => panic!("harness: no items in {:?}", self),
        }
    }
    pub fn items_mut(&mut self) -> &mut Vec<Value> {
        match self {
            Value::Array(v) | Value::Struct(v) | Value::Vec(v) | Value::Flex(v) => v,
            Value::Enum(_, v) => v,
            _ => panic!("harness: no items"),
        }
    }
    pub fn as_str(&self) -> &str {
        match self {
            Value::Str(s) => s,
            _ => panic!("harness: not a string: {:?}", self),
        }
    }
    /// Compact rendering for evidence samples and messages (long values are cut).
    pub fn show(&self) -> String {
        let mut s = self.show_full();
        if s.len() > 400 {
            let mut cut = 400;
            while !s.is_char_boundary(cut) {
                cut -= 1;
            }
            s.truncate(cut);
            s.push_str("...");
        }
        s
    }
    pub fn show_full(&self) -> String {
        match self {
            Value::Unit => "()".into(),
            Value::Scalar(x) => format!("{:#x}", x),
            Value::Bool(b) => format!("{}", b),
            Value::Array(v) => format!("[{}]", v.iter().map(|x| x.show_full()).collect::<Vec<_>>().join(",")),
            Value::Struct(v) => format!("{{{}}}", v.iter().map(|x| x.show_full()).collect::<Vec<_>>().join(",")),
            Value::Enum(i, v) => format!("#{}({})", i, v.iter().map(|x| x.show_full()).collect::<Vec<_>>().join(",")),
            Value::Vec(v) => format!("vec[{}]", v.iter().map(|x| x.show_full()).collect::<Vec<_>>().join(",")),
            Value::Str(s) => format!("{:?}", s),
            Value::Flex(v) => format!("flex[{}]", v.iter().map(|x| x.show_full()).collect::<Vec<_>>().join(",")),
        }
    }
}

/// The default value the documentation promises for `default_in_place`.
pub fn default_value(ty: &Ty) -> Value {
    match ty {
        Ty::Unit => Value::Unit,
        Ty::Prim(_) | Ty::PInt { .. } | Ty::PFloat { .. } => Value::Scalar(0),
        Ty::Bool => Value::Bool(false),
        Ty::Array(t, n) => Value::Array((0..*n).map(|_| default_value(t)).collect()),
        Ty::Struct(s) => Value::Struct(s.fields.iter().map(default_value).collect()),
        Ty::Enum(e) => {
            let i = e.default.expect("harness: enum without default");
            Value::Enum(i, e.variants[i].fields.iter().map(default_value).collect())
        }
        Ty::FlatVec(..) => Value::Vec(vec![]),
        Ty::FlatString(_) => Value::Str(String::new()),
        Ty::FlexVec(..) => Value::Flex(vec![]),
    }
}
