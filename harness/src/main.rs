fn main() {
    let reg = vharness::shapes::registry();
    println!("{} shapes", reg.len());
    for s in &reg { println!("{} align={} min={}", s.ty().short(), s.consts().align, s.consts().min_size); }
}
