use std::path::PathBuf;
use vharness::run::{self, Tier};

fn arg(args: &[String], name: &str) -> Option<String> {
    args.iter().position(|a| a == name).and_then(|i| args.get(i + 1).cloned())
}

fn main() {
    let args: Vec<String> = std::env::args().collect();
    let props = vharness::props::all();
    let cmd = args.get(1).map(|s| s.as_str()).unwrap_or("");
    let find = |id: &str| -> &'static dyn run::Property {
        *props.iter().find(|p| p.id() == id).unwrap_or_else(|| {
            eprintln!("unknown property {}", id);
            std::process::exit(3)
        })
    };
    let tier = match arg(&args, "--tier").as_deref() {
        Some("thorough") => Tier::Thorough,
        _ => Tier::Quick,
    };
    let seed: u64 = arg(&args, "--seed")
        .or_else(|| std::env::var("VERIF_SEED").ok())
        .and_then(|s| s.parse().ok())
        .unwrap_or(0);
    // processes started by the supervisor must not outlive it (a supervisor killed from outside - a timeout of
    // whoever runs the check - would otherwise leave workers behind that may spin in a looping library call)
    if cmd == "worker" || std::env::var("VERIF_SUPERVISED").is_ok() {
        unsafe {
            libc::prctl(libc::PR_SET_PDEATHSIG, libc::SIGKILL);
            if libc::getppid() == 1 {
                std::process::exit(2);
            }
        }
    }
    let code = match cmd {
        "run" => run::supervise(find(&arg(&args, "--prop").expect("--prop")), tier, seed),
        "worker" => {
            let a = run::WorkerArgs {
                tier,
                seed,
                shard: arg(&args, "--shard").unwrap().parse().unwrap(),
                nshards: arg(&args, "--nshards").unwrap().parse().unwrap(),
                journal: PathBuf::from(arg(&args, "--journal").unwrap()),
                out: PathBuf::from(arg(&args, "--out").unwrap()),
            };
            run::worker(find(&arg(&args, "--prop").expect("--prop")), &a)
        }
        "replay" => run::replay(&props, &PathBuf::from(arg(&args, "--file").expect("--file"))),
        "fuzz-artifact" => {
            // convert a libFuzzer input ([2 bytes shape selector][tape]) into a replay file
            let id = arg(&args, "--prop").expect("--prop");
            let prop = find(&id);
            let data = std::fs::read(arg(&args, "--file").expect("--file")).expect("harness: read artifact");
            let reg = run::Registry::load();
            let shapes: Vec<usize> = (0..reg.shapes.len()).filter(|i| prop.applicable_shape(reg.shapes[*i].as_ref())).collect();
            if data.len() < 2 || shapes.is_empty() {
                eprintln!("artifact too short");
                std::process::exit(3);
            }
            let sel = u16::from_le_bytes([data[0], data[1]]) as usize;
            let shape = shapes[(sel * shapes.len()) >> 16];
            let path = run::write_replay(prop.id(), &reg, Some(shape), &data[2..], "found by the libFuzzer target", "case");
            println!("{}", path.display());
            0
        }
        "fuzz-seeds" => {
            // write the regression cases of a property as libFuzzer seed inputs ([2-byte shape selector][tape])
            let id = arg(&args, "--prop").expect("--prop");
            let prop = find(&id);
            let out = PathBuf::from(arg(&args, "--out").expect("--out"));
            let reg = run::Registry::load();
            let shapes: Vec<usize> = (0..reg.shapes.len()).filter(|i| prop.applicable_shape(reg.shapes[*i].as_ref())).collect();
            let mut n = 0;
            if let Ok(rd) = std::fs::read_dir("/verif/replays/regress") {
                for e in rd.flatten() {
                    let name = e.file_name().to_string_lossy().to_string();
                    if !name.starts_with(&format!("{}-", id)) {
                        continue;
                    }
                    let Ok(txt) = std::fs::read_to_string(e.path()) else { continue };
                    let Ok(j) = serde_json::from_str::<serde_json::Value>(&txt) else { continue };
                    let Some(shape) = j["shape"].as_str().and_then(|s| reg.by_name(s)) else { continue };
                    let Some(pos) = shapes.iter().position(|s| *s == shape) else { continue };
                    // smallest selector that maps to `pos` under (sel * len) >> 16
                    let sel = ((pos << 16) + shapes.len() - 1) / shapes.len();
                    let mut data = (sel as u16).to_le_bytes().to_vec();
                    data.extend(run::unhex(j["tape"].as_str().unwrap_or("")));
                    std::fs::write(out.join(format!("regress-{}", n)), data).ok();
                    n += 1;
                }
            }
            println!("{} seeds", n);
            0
        }
        "shapes" => {
            let reg = run::Registry::load();
            for s in &reg.shapes {
                let c = s.consts();
                println!("{} align={} min={}", s.ty().short(), c.align, c.min_size);
            }
            0
        }
        _ => {
            eprintln!("usage: vcheck run|worker|replay|shapes ...");
            3
        }
    };
    std::process::exit(code);
}
