//! One libFuzzer target for every tape-driven property: the input is
//! [shape selector: 2 bytes][choice tape...]; the property is selected with
//! the environment variable VERIF_FUZZ_PROP. The semantic oracle of the
//! property runs inside the target; a violation aborts (libFuzzer saves the input).
#![no_main]
use libfuzzer_sys::fuzz_target;
use std::sync::OnceLock;
use vharness::run::{Property, Registry, Stats};

struct Ctx {
    reg: Registry,
    prop: &'static dyn Property,
    shapes: Vec<usize>,
    strict: bool,
}

fn ctx() -> &'static Ctx {
    static C: OnceLock<Ctx> = OnceLock::new();
    C.get_or_init(|| {
        vharness::run::install_panic_hook();
        let id = std::env::var("VERIF_FUZZ_PROP").unwrap_or_else(|_| "C01".into());
        let prop = *vharness::props::all().iter().find(|p| p.id() == id).expect("unknown property");
        let reg = Registry::load();
        let shapes: Vec<usize> = (0..reg.shapes.len()).filter(|i| prop.applicable_shape(reg.shapes[*i].as_ref())).collect();
        Ctx {
            reg,
            prop,
            shapes,
            strict: true,
        }
    })
}

fuzz_target!(|data: &[u8]| {
    let c = ctx();
    if data.len() < 2 || c.shapes.is_empty() {
        return;
    }
    let sel = u16::from_le_bytes([data[0], data[1]]) as usize;
    let shape = c.shapes[(sel * c.shapes.len()) >> 16];
    let mut st = Stats::default();
    if let Err(v) = c.prop.run_case(&c.reg, shape, &data[2..], &mut st) {
        let findings = vharness::run::load_findings();
        if vharness::run::is_known(&findings, c.prop.id(), &v.key) && !c.strict {
            return;
        }
        eprintln!("FUZZ-VIOLATION property={} shape={} [{}] {}", c.prop.id(), c.reg.shapes[shape].ty().short(), v.key, v.msg);
        std::process::abort();
    }
});
