#!/bin/sh
# offline build of the harness
set -e
cd "$(dirname "$0")"
exec ./check --build-only
