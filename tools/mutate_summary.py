#!/usr/bin/env python3
import json,glob,collections,sys
rs=[]
for f in glob.glob('/tmp/mu*/results.jsonl')+glob.glob('/verif/seeded/sweep/results.jsonl'):
    for l in open(f): rs.append(json.loads(l))
seen={}
for r in rs: seen[r['id']]=r
rs=list(seen.values())
c=collections.Counter(r['verdict'] for r in rs)
print(len(rs),dict(c))
print(collections.Counter(r.get('by') for r in rs if r['verdict']=='caught'))
for r in rs:
    if r['verdict'] in ('SURVIVOR','inconclusive','harness-error','timeout') or (len(sys.argv)>1 and r['verdict']==sys.argv[1]):
        print(r['verdict'], r.get('by',''), r['file'], r['line'], '|', r['old'].strip()[:90], '=>', r['new'].strip()[:90], '|', (r.get('detail') or '')[:160].replace('\n',' '))
