#!/bin/bash
# try_mutant.sh <patch> <ID> [<ID>...]: apply a seeded change to /repo, run the quick checks, undo.
P=$1; shift
cd /repo && git diff --quiet || { echo "/repo is dirty"; exit 9; }
git apply "$P" || exit 9
for ID in "$@"; do
  OUT=$(cd /verif && VERIF_NO_EVIDENCE=1 ./check $ID --tier quick 2>&1); RC=$?
  echo "== $P vs $ID: exit $RC"
  echo "$OUT" | grep -E "VIOLATION|violation:|BUILD FAILED|HARNESS|INCONCLUSIVE" | cut -c1-400 | head -3
done
git -C /repo checkout -q -- .
