#!/usr/bin/env python3
"""Copy verified sub-agent mutants from /tmp/seeded-<ID> into /verif/seeded/<ID>-<k>/ and
record which checks caught them (parsed from the try_mutant logs given on the command line)."""
import json, os, re, shutil, sys, glob

logs = sys.argv[1:]
results = {}   # (ID,k) -> {check: exit}
for lg in logs:
    for line in open(lg):
        m = re.match(r"== /tmp/seeded-(C\d+)/patch(\d+)\.diff vs (C\d+): exit (\d+)", line)
        if m:
            results.setdefault((m.group(1), m.group(2)), {})[m.group(3)] = int(m.group(4))
verify = {}
for f in glob.glob('/tmp/verify-C*.log')+glob.glob('/tmp/verify2-C*.log')+glob.glob('/tmp/verify3-C*.log')+glob.glob('/tmp/verify4-C*.log')+glob.glob('/tmp/verify5-C*.log')+glob.glob('/tmp/verify6-C*.log'):
    for line in open(f):
        m = re.match(r"(C\d+)/(\d+): tests-with-patch: (\d+) passed (\d+) failed; demo exit with patch: (\d+); demo exit without: (\d+)", line)
        if m:
            verify[(m.group(1), m.group(2))] = dict(tests_passed=int(m.group(3)), tests_failed=int(m.group(4)), demo_exit_with_patch=int(m.group(5)), demo_exit_without=int(m.group(6)))
rows = []
for (pid, k), v in sorted(verify.items()):
    src = f'/tmp/seeded-{pid}'
    if v['tests_failed'] != 0 or v['demo_exit_with_patch'] == 0 or v['demo_exit_without'] != 0:
        print('NOT KEPT', pid, k, v); continue
    dst = f'/verif/seeded/{pid}-{k}'
    if not os.path.exists(f'{src}/patch{k}.diff'):
        # already collected in an earlier round (scratch copy removed): only refresh the results
        if os.path.exists(f'{dst}/meta.json'):
            m = json.load(open(f'{dst}/meta.json'))
            res = results.get((pid, k), {})
            m['checks_run'].update({c: ('caught (exit 1)' if e == 1 else f'not caught (exit {e})') for c, e in res.items()})
            json.dump(m, open(f'{dst}/meta.json', 'w'), indent=1)
            rows.append((pid, k, m.get('breaks', ''), m['checks_run']))
        continue
    os.makedirs(dst, exist_ok=True)
    shutil.copy(f'{src}/patch{k}.diff', f'{dst}/patch.diff')
    if os.path.isdir(f'{dst}/demo'): shutil.rmtree(f'{dst}/demo')
    shutil.copytree(f'{src}/demo{k}', f'{dst}/demo', ignore=shutil.ignore_patterns('target'))
    meta = {}
    try: meta = json.load(open(f'{src}/meta{k}.json'))
    except Exception as e: meta = {'note': f'agent meta unreadable: {e}'}
    res = results.get((pid, k), {})
    old = {}; keep = {}
    if os.path.exists(f'{dst}/meta.json'):
        try:
            om = json.load(open(f'{dst}/meta.json'))
            old = om.get('checks_run', {})
            # fields added by hand or by later experiments survive a re-collection
            keep = {k: v for k, v in om.items() if k in ('generated_search_only', 'note')}
        except Exception: pass
    old.update({c: ('caught (exit 1)' if e == 1 else f'not caught (exit {e})') for c, e in res.items()})
    out = {
        'property': pid,
        'breaks': meta.get('summary'),
        'needs_to_manifest': meta.get('needs'),
        'files': meta.get('files'),
        'agent_demo_run': meta.get('demo_run'),
        'verified_by_me': {
            'how': 'tools/verify_seed.sh in the scratch worktree: git apply; cargo test --workspace --offline; demo with patch; git checkout; demo without',
            **v},
        'checks_run': old,
        'how_checks_were_run': 'tools/try_mutant.sh: git -C /repo apply patch.diff; ./check <ID> --tier quick; git -C /repo checkout -- .',
        **keep,
    }
    json.dump(out, open(f'{dst}/meta.json', 'w'), indent=1)
    rows.append((pid, k, meta.get('summary', ''), old))
# RESULTS.md always lists every stored seed (the scratch logs of earlier rounds are gone)
def _key(d):
    m = re.match(r'.*/(C\d+)-(\d+)/meta.json', d); return (m.group(1), m.group(2))
rows = []
for d in sorted(glob.glob('/verif/seeded/C*-*/meta.json'), key=lambda d: (_key(d)[0], _key(d)[1])):
    m = json.load(open(d)); pid, k = _key(d)
    rows.append((pid, k, m.get('breaks') or '', m.get('checks_run', {})))
with open('/verif/seeded/RESULTS.md', 'w') as f:
    f.write('# Seeded changes and which checks catch them\n\n')
    f.write('Every change compiles and passes the 67 unit + 4 doc tests; its demonstration fails with it and passes without it (re-verified).\n')
    f.write('"caught" = the quick tier of the check exits 1 with a VIOLATION line and a replay file when the patch is applied to /repo.\n\n')
    f.write('| seed | change | quick checks run against it |\n|---|---|---|\n')
    for pid, k, summ, res in rows:
        rs = '; '.join(f'{c}: {r}' for c, r in sorted(res.items())) or 'not run yet'
        f.write(f'| {pid}-{k} | {(summ or "").replace("|", "/")[:220]} | {rs} |\n')
print(len(rows), 'seeds collected')
