#!/usr/bin/env python3
"""Systematic sensitivity sweep: single-token mutants of the library source, each applied in a scratch
worktree (never in /repo), run against the quick tier of all twenty checks and - if no check
objects - against the library's own test suite.

  mutate.py list                      -> prints the number of candidate mutants (after sampling)
  mutate.py run <runner> <nrunners>   -> processes the mutants i with i % nrunners == runner
Results: /verif/seeded/sweep/results.jsonl (one line per mutant) - written by collect, not at check time.
"""
import json, os, random, re, subprocess, sys, hashlib, shutil

REPO = '/repo'
FILES = subprocess.check_output(
    "cd /repo && git ls-files 'base/src/*.rs' 'base/src/**/*.rs' 'containers/src/*.rs' 'portable/src/*.rs' 'macros/src/*.rs' 'macros/src/**/*.rs' 'io/src/*.rs' 'io/src/**/*.rs'",
    shell=True, text=True).split()

OPS = [
    (r'\bceil_mul\(', 'floor_mul('), (r'\bfloor_mul\(', 'ceil_mul('),
    (r'\bT::ALIGN\b', 'T::SIZE'), (r'\bT::SIZE\b', 'T::ALIGN'),
    (r'\bL::ALIGN\b', 'L::SIZE'), (r'\bL::SIZE\b', 'L::ALIGN'),
    (r'\bSelf::ALIGN\b', 'Self::MIN_SIZE'), (r'\bSelf::DATA_OFFSET\b', 'Self::ALIGN'),
    (r'\bOFFSET_SIZE\b', 'ALIGN'), (r'\boffset_size\b', 'Self::ALIGN'),
    (r' < ', ' <= '), (r' <= ', ' < '), (r' > ', ' >= '), (r' >= ', ' > '), (r' == ', ' != '), (r' != ', ' == '),
    (r' \+ 1\b', ''), (r' - 1\b', ''), (r' \+ ', ' - '), (r' - ', ' + '),
    (r'\bmax\(', 'min('), (r'\bmin\(', 'max('),
    (r'\btrue\b', 'false'), (r'\bfalse\b', 'true'),
    (r'\.is_err\(\)', '.is_ok()'), (r'\.is_ok\(\)', '.is_err()'),
    (r'\bis_some\(\)', 'is_none()'), (r'\bis_none\(\)', 'is_some()'),
    (r'\blen\(\)', 'capacity()'),
    (r'&&', '||'), (r'\|\|', '&&'),
    (r'\?;', '.ok();'),
    (r'\b0\b', '1'), (r'\b1\b', '0'), (r'\b1\b', '2'),
]

def candidates():
    out = []
    for f in FILES:
        if os.path.basename(f) in ('tests.rs', 'test.rs') or '/tests/' in f:
            continue
        lines = open(os.path.join(REPO, f)).read().split('\n')
        in_tests = False
        for i, line in enumerate(lines):
            if re.search(r'#\[cfg\(.*test', line) or re.match(r'\s*mod tests?\b', line):
                in_tests = True
            if in_tests:
                continue
            code = line.split('//')[0]
            if not code.strip() or code.strip().startswith(('#[', 'use ', '///', 'pub use', 'extern ')):
                continue
            # lines that are (part of) signatures / bounds: arithmetic operators there are trait sums
            boundish = bool(re.search(r"\b(impl|where|fn|struct|trait|type|dyn|enum)\b|\?Sized|\bSized\b|: Flat|Unpin|'\w+ \+|\+ '\w", code))
            for pat, rep in OPS:
                if boundish and pat in (r' \+ ', r' - ', r' < ', r' > ', r' <= ', r' >= '):
                    continue
                for m in re.finditer(pat, code):
                    new = code[:m.start()] + rep + code[m.end():] + line[len(code):]
                    if new != line:
                        out.append(dict(file=f, line=i + 1, old=line, new=new, op=f'{pat} -> {rep}'))
            # statement deletion: a call statement on its own line
            if re.match(r'\s+[a-z_][\w\.:<>]*(\(|\.)[^=]*\);\s*$', code) and not re.match(r'\s*(let|return|assert|debug_assert)', code):
                out.append(dict(file=f, line=i + 1, old=line, new=re.match(r'\s*', line).group(0) + '// (statement removed)', op='delete statement'))
    return out

def sample(n=600, seed=20260927):
    c = candidates()
    rnd = random.Random(seed)
    rnd.shuffle(c)
    # spread over files: at most 40% from one crate
    return c[:n]

def sh(cmd, **kw):
    return subprocess.run(cmd, shell=True, text=True, stdout=subprocess.PIPE, stderr=subprocess.STDOUT, **kw)

ORDER = ['C01','C03','C02','C15','C12','C11','C05','C13','C14','C18','C06','C04','C17','C20','C19','C07','C08','C09','C10','C16']

def run(runner, nrunners):
    M = f'/tmp/mu{runner}'
    os.makedirs(M, exist_ok=True)
    if not os.path.isdir(f'{M}/repo'):
        sh(f'git -C /repo worktree add -q --detach {M}/repo HEAD')
    head = sh('git -C /repo rev-parse HEAD').stdout.strip()
    sh(f'git -C {M}/repo checkout -q --detach {head}; git -C {M}/repo checkout -q -- .')
    sh(f'rsync -a --delete --exclude target --exclude fuzz /verif/harness/ {M}/harness/')
    sh(f"sed -i 's#path = \"/repo#path = \"{M}/repo#g' {M}/harness/Cargo.toml")
    res_path = f'{M}/results.jsonl'
    done = set()
    if os.path.exists(res_path):
        for l in open(res_path):
            done.add(json.loads(l)['id'])
    muts = sample()
    for idx, mu in enumerate(muts):
        if idx % nrunners != runner:
            continue
        mid = hashlib.sha1(f"{mu['file']}:{mu['line']}:{mu['new']}".encode()).hexdigest()[:10]
        if mid in done:
            continue
        path = f"{M}/repo/{mu['file']}"
        src = open(path).read().split('\n')
        if src[mu['line'] - 1] != mu['old']:
            continue
        src[mu['line'] - 1] = mu['new']
        open(path, 'w').write('\n'.join(src))
        rec = dict(id=mid, **mu)
        try:
            b = sh(f'cd {M}/harness && CARGO_NET_OFFLINE=true CARGO_TARGET_DIR={M}/target cargo build --release --quiet', timeout=1500)
            if b.returncode != 0:
                # does the library itself still compile?
                lb = sh(f'cd {M}/repo && CARGO_NET_OFFLINE=true CARGO_TARGET_DIR={M}/ltarget cargo build --workspace --offline --quiet', timeout=1500)
                rec['verdict'] = 'does-not-compile' if lb.returncode != 0 else 'harness-build-fails'
                if lb.returncode == 0:
                    rec['detail'] = b.stdout[-600:]
            else:
                killed = None
                for pid in ORDER:
                    r = sh(f'cd /verif && VERIF_NO_EVIDENCE=1 VERIF_WATCHDOG_S=300 VERIF_REPLAY_DIR={M}/replays {M}/target/release/vcheck run --prop {pid} --tier quick --seed 0', timeout=1200)
                    if r.returncode in (1, 2, 3):
                        killed = (pid, r.returncode)
                        rec['detail'] = '\n'.join([l for l in r.stdout.split('\n') if l.startswith(('violation', 'HARNESS', 'INCONCL'))][:2])[:500]
                        break
                if killed:
                    rec['verdict'] = {1: 'caught', 2: 'inconclusive', 3: 'harness-error'}[killed[1]]
                    rec['by'] = killed[0]
                else:
                    t = sh(f'cd {M}/repo && CARGO_NET_OFFLINE=true CARGO_TARGET_DIR={M}/ltarget cargo test --workspace --offline', timeout=2400)
                    rec['verdict'] = 'SURVIVOR' if t.returncode == 0 else 'missed-but-killed-by-unit-tests'
        except subprocess.TimeoutExpired:
            rec['verdict'] = 'timeout'
        sh(f'git -C {M}/repo checkout -q -- .')
        with open(res_path, 'a') as f:
            f.write(json.dumps(rec) + '\n')
        print(idx, rec['verdict'], rec.get('by', ''), mu['file'], mu['line'], mu['op'], flush=True)

if __name__ == '__main__':
    if sys.argv[1] == 'list':
        c = candidates()
        print(len(c), 'candidates;', len(sample()), 'sampled')
        from collections import Counter
        print(Counter(m['file'].split('/')[0] for m in sample()))
    else:
        run(int(sys.argv[2]), int(sys.argv[3]))
