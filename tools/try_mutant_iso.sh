#!/bin/bash
# try_mutant_iso.sh <patch> <ID> [<ID>...]
# Like try_mutant.sh, but does not touch /repo: the patch is applied in a scratch git worktree
# (/tmp/mh/repo) and a scratch copy of the harness (/tmp/mh/harness) is built against it.
# (The C17 compile probes still build against /repo; use try_mutant.sh for changes they should see.)
P=$1; shift
set -u
M=${MH:-/tmp/mh}
mkdir -p $M
if [ ! -d $M/repo ]; then git -C /repo worktree add -q --detach $M/repo HEAD; fi
git -C $M/repo checkout -q --detach $(git -C /repo rev-parse HEAD)
git -C $M/repo checkout -q -- . && git -C $M/repo apply "$P" || { echo "patch does not apply"; exit 9; }
rsync -a --delete --exclude target --exclude fuzz /verif/harness/ $M/harness/
sed -i "s#path = \"/repo#path = \"$M/repo#g" $M/harness/Cargo.toml
( cd $M/harness && CARGO_NET_OFFLINE=true CARGO_TARGET_DIR=$M/target cargo build --release --quiet 2> $M/build.log ) || { echo "== $P: BUILD FAILED"; tail -5 $M/build.log; git -C $M/repo checkout -q -- .; exit 3; }
for ID in "$@"; do
  OUT=$(cd /verif && VERIF_NO_EVIDENCE=1 $M/target/release/vcheck run --prop $ID --tier quick --seed ${VERIF_SEED:-0} 2>&1); RC=$?
  echo "== $P vs $ID: exit $RC"
  echo "$OUT" | grep -E "VIOLATION|violation:|HARNESS|INCONCLUSIVE" | cut -c1-400 | head -3
done
git -C $M/repo checkout -q -- .
