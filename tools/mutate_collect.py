#!/usr/bin/env python3
"""Collect the results of tools/mutate.py runners (/tmp/mu*/results.jsonl) into /verif/seeded/sweep/."""
import json,glob,collections,os
rs={}
for f in sorted(glob.glob('/verif/seeded/sweep/results.jsonl'))+sorted(glob.glob('/tmp/mu*/results.jsonl')):
    for l in open(f):
        r=json.loads(l); rs[r['id']]=r
rs=[r for r in rs.values() if not r['file'].endswith('tests.rs')]
os.makedirs('/verif/seeded/sweep',exist_ok=True)
rs.sort(key=lambda r:(r['file'],r['line'],r['op']))
with open('/verif/seeded/sweep/results.jsonl','w') as f:
    for r in rs: f.write(json.dumps(r)+'\n')
c=collections.Counter(r['verdict'] for r in rs)
by=collections.Counter(r.get('by') for r in rs if r['verdict']=='caught')
TRIAGE=json.load(open('/verif/seeded/sweep/triage.json')) if os.path.exists('/verif/seeded/sweep/triage.json') else {}
with open('/verif/seeded/sweep/SUMMARY.md','w') as f:
    f.write('# Single-token sweep (tools/mutate.py)\n\n')
    f.write(f'{len(rs)} mutants of the library sources (test modules excluded), each applied in a scratch worktree.\n\n')
    f.write('| verdict | count |\n|---|---|\n')
    for k,v in c.most_common(): f.write(f'| {k} | {v} |\n')
    f.write('\nFirst check (in the fixed order C01, C03, C02, C15, C12, C11, C05, C13, C14, C18, C06, C04, C17, C20, C19, C07, C08, C09, C10, C16) that caught a mutant:\n\n')
    f.write('| check | mutants |\n|---|---|\n')
    for k,v in by.most_common(): f.write(f'| {k} | {v} |\n')
    f.write('\n`harness-build-fails` = the library still compiles but definitions of the generated corpus do not (the driver then takes the CORPUS-REDUCED path).\n')
    gaps=[r for r in rs if r['verdict']!='SURVIVOR' and TRIAGE.get(r['file']+':'+str(r['line']),'').startswith('GAP')]
    if gaps:
        f.write('\n## Survivors of the first pass that were gaps and are caught now (re-run against the final harness)\n\n| site | change | closed by | now caught by |\n|---|---|---|---|\n')
        for r in gaps:
            f.write(f"| {r['file']}:{r['line']} | `{r['old'].strip()[:70]}` -> `{r['new'].strip()[:70]}` | {TRIAGE[r['file']+':'+str(r['line'])][13:]} | {r.get('by')} |\n")
    f.write('\n## Survivors (no quick check objects, the 71 unit tests pass)\n\n| site | change | triage |\n|---|---|---|\n')
    for r in rs:
        if r['verdict']=='SURVIVOR':
            key=f"{r['file']}:{r['line']}:{r['op']}"
            f.write(f"| {r['file']}:{r['line']} | `{r['old'].strip()[:80]}` -> `{r['new'].strip()[:80]}` | {TRIAGE.get(key,TRIAGE.get(r['file']+':'+str(r['line']),'(not triaged)'))} |\n")
print(len(rs),dict(c))
