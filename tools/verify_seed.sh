#!/bin/bash
# verify_seed.sh <ID> <k>: confirm a sub-agent's mutant in its scratch worktree:
#  tests pass with the patch, demo fails with it and passes without it.
ID=$1; K=$2
WT=/tmp/wt-$ID; SD=/tmp/seeded-$ID
set -u
cd $WT && git checkout -q -- . && git apply --check $SD/patch$K.diff || { echo "$ID/$K: patch does not apply"; exit 1; }
git apply $SD/patch$K.diff
T=$(cargo test --workspace --offline 2>&1 | grep -E "^test result" | awk '{p+=$4; f+=$6} END {print p" passed "f" failed"}')
( cd $SD/demo$K && CARGO_TARGET_DIR=/tmp/seeded-target-$ID cargo run --offline --quiet >/tmp/seeded-$ID/demo$K.mut.log 2>&1 ); RM=$?
git checkout -q -- .
( cd $SD/demo$K && CARGO_TARGET_DIR=/tmp/seeded-target-$ID cargo run --offline --quiet >/tmp/seeded-$ID/demo$K.orig.log 2>&1 ); RO=$?
echo "$ID/$K: tests-with-patch: $T; demo exit with patch: $RM; demo exit without: $RO"
