#!/usr/bin/env python3
"""failing_shapes.py <build.log> <target-dir>: names of generated corpus definitions (out/shapes.rs)
that the compiler rejects, one comma-separated line; empty if the errors are somewhere else."""
import re, sys, glob, os
log = open(sys.argv[1], errors='replace').read()
names = set()
cache = {}
for m in re.finditer(r'-->\s+(\S*/out/shapes\.rs):(\d+):', log):
    path, line = m.group(1), int(m.group(2))
    if path not in cache:
        try:
            cache[path] = open(path).read().split('\n')
        except OSError:
            cache[path] = []
    src = cache[path]
    # the definition the line belongs to: the attribute line itself, or the nearest definition / impl above
    found = None
    for i in range(min(line + 1, len(src)) - 1, -1, -1):
        d = re.match(r'\s*pub (?:struct|enum) (\w+)', src[i])
        if d and (i >= line - 1 or True):
            found = d.group(1); break
        im = re.match(r'\s*(?:unsafe )?impl(?:<[^>]*>)? .* for (\w+)', src[i])
        if im:
            found = im.group(1); break
    # attribute line: definition follows on the next line
    if line < len(src):
        d = re.match(r'\s*pub (?:struct|enum) (\w+)', src[line]) if src[line - 1].lstrip().startswith('#[') else None
        if d:
            found = d.group(1)
    if found:
        names.add(found)
# errors that name the type although the span is elsewhere
generic_inst = {}
for m in re.finditer(r'evaluation of `(?:\w+::)*shapes::(\w+)::(?:<([^>`]*)>::)?', log):
    base, args = m.group(1), m.group(2)
    if args is None:
        names.add(base)
    elif re.fullmatch(r'[\w, ]+', args):
        # an instantiation of a generic corpus definition, spelled the way the generator names it
        generic_inst.setdefault(base, set()).add('%s<%s>' % (base, args))
    else:
        generic_inst.setdefault(base, set()).add(base)
for base, insts in generic_inst.items():
    names.discard(base)     # the span points at the generic definition; only these instantiations fail
    names |= insts
print(';'.join(sorted(names)))
