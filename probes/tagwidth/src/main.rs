//! Compile probe for C17: is a `portable = true` enum with a multi-byte tag accepted, and if so,
//! is its image still alignment-1 with a fixed byte order?
use flatty::{flat, portable::le, prelude::*};

#[cfg(feature = "tag_u16")]
#[flat(portable = true, tag_type = "u16")]
#[derive(Clone, Copy)]
pub enum Probe {
    A,
    B(le::U16),
}

#[cfg(feature = "tag_u32")]
#[flat(portable = true, tag_type = "u32")]
#[derive(Clone, Copy)]
pub enum Probe {
    A,
    B(le::U16),
}

#[cfg(feature = "np_sized_field")]
#[flat(portable = true)]
#[derive(Clone, Copy)]
pub struct Probe {
    a: u8,
    b: u32,
}

#[cfg(feature = "np_struct_tail")]
#[flat(sized = false, portable = true)]
pub struct ProbeU {
    a: le::U16,
    b: flatty::FlatVec<u32, le::U16>,
}

#[cfg(feature = "np_enum_tail")]
#[flat(sized = false, portable = true)]
pub enum ProbeU {
    A,
    B(le::U16, flatty::FlatVec<u32, le::U16>),
}

#[cfg(feature = "np_native_len")]
#[flat(sized = false, portable = true)]
pub struct ProbeU {
    a: le::U16,
    b: flatty::FlatVec<le::U32, u16>,
}

#[cfg(feature = "np_flex_native_len")]
#[flat(sized = false, portable = true)]
pub struct ProbeU {
    a: le::U16,
    b: flatty::FlexVec<flatty::FlatVec<u8, le::U16>, u32>,
}

#[cfg(feature = "np_string_native_len")]
#[flat(sized = false, portable = true)]
pub enum ProbeU {
    A,
    B(le::U16, flatty::FlatString<u16>),
}

#[cfg(feature = "np_flex_item")]
#[flat(sized = false, portable = true)]
pub struct ProbeU {
    a: le::U16,
    b: flatty::FlexVec<flatty::FlatVec<u32, le::U16>, le::U16>,
}

#[cfg(feature = "np_array_item")]
#[flat(sized = false, portable = true)]
pub struct ProbeU {
    a: [u16; 3],
    b: flatty::FlatVec<u8, le::U16>,
}

#[cfg(not(any(feature = "tag_u16", feature = "tag_u32", feature = "np_sized_field", feature = "np_struct_tail", feature = "np_enum_tail", feature = "np_native_len", feature = "np_flex_native_len", feature = "np_string_native_len", feature = "np_flex_item", feature = "np_array_item")))]
#[flat(portable = true)]
#[derive(Clone, Copy)]
pub enum Probe {
    A,
    B(le::U16),
}

fn assert_portable<T: flatty::Portable + ?Sized>() {}

#[cfg(any(feature = "np_struct_tail", feature = "np_enum_tail", feature = "np_native_len", feature = "np_flex_native_len", feature = "np_string_native_len", feature = "np_flex_item", feature = "np_array_item"))]
fn main() {
    assert_portable::<ProbeU>();
    println!("align={} claims-portable", <ProbeU as FlatBase>::ALIGN);
}

#[cfg(feature = "np_sized_field")]
fn main() {
    assert_portable::<Probe>();
    println!("align={} claims-portable", <Probe as FlatBase>::ALIGN);
}

#[cfg(not(any(feature = "np_sized_field", feature = "np_struct_tail", feature = "np_enum_tail", feature = "np_native_len", feature = "np_flex_native_len", feature = "np_string_native_len", feature = "np_flex_item", feature = "np_array_item")))]
fn main() {
    assert_portable::<Probe>();
    let v = Probe::B(le::U16::from(0x1234));
    let bytes = v.as_bytes();
    let hex: String = bytes.iter().map(|b| format!("{:02x}", b)).collect();
    println!("align={} size={} bytes={}", <Probe as FlatBase>::ALIGN, <Probe as FlatSized>::SIZE, hex);
}
