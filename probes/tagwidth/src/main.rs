//! Compile probe for C17: is a `portable = true` enum with a multi-byte tag accepted, and if so,
//! is its image still alignment-1 with a fixed byte order?
use flatty::{flat, portable::le, prelude::*};

#[cfg(feature = "tag_u16")]
#[flat(portable = true, tag_type = "u16")]
#[derive(Clone, Copy)]
pub enum Probe {
    A,
    B(le::U16),
}

#[cfg(feature = "tag_u32")]
#[flat(portable = true, tag_type = "u32")]
#[derive(Clone, Copy)]
pub enum Probe {
    A,
    B(le::U16),
}

#[cfg(not(any(feature = "tag_u16", feature = "tag_u32")))]
#[flat(portable = true)]
#[derive(Clone, Copy)]
pub enum Probe {
    A,
    B(le::U16),
}

fn main() {
    let v = Probe::B(le::U16::from(0x1234));
    let bytes = v.as_bytes();
    let hex: String = bytes.iter().map(|b| format!("{:02x}", b)).collect();
    println!("align={} size={} bytes={}", <Probe as FlatBase>::ALIGN, <Probe as FlatSized>::SIZE, hex);
}
